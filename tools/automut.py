#!/usr/bin/env python3
"""tools/automut.py [N] [seed]  -- N random single-token mutants of src/quansino, each run against the quick checks
of the properties anchored in the mutated file (scratch worktrees, QVERIF_SRC).  Prints one line per mutant:
KILLED (some check exits 1), SURVIVED (all 0), or OTHER (exit 2/3: inconclusive / harness error).  A rough
mutation score for the harness; survivors are to be read by hand (equivalent mutant or a gap)."""
from __future__ import annotations

import io
import json
import os
import random
import re
import subprocess
import sys
import tokenize
from concurrent.futures import ThreadPoolExecutor

REPO = "/repo"
MAP = {
    "mc/criteria.py": ["C02", "C01"],
    "mc/contexts.py": ["C03", "C04", "C05"],
    "mc/core.py": ["C09", "C15", "C20", "C03"],
    "mc/driver.py": ["C15", "C06", "C16"],
    "mc/canonical.py": ["C03", "C04"],
    "mc/gcmc.py": ["C05", "C03", "C04", "C20"],
    "mc/isobaric.py": ["C03", "C20", "C04"],
    "mc/isotension.py": ["C03", "C20", "C02"],
    "mc/fbmc.py": ["C13", "C18", "C12", "C07"],
    "moves/displacement.py": ["C11", "C03", "C14", "C12", "C05"],
    "moves/exchange.py": ["C05", "C03"],
    "moves/composite.py": ["C17", "C05"],
    "moves/core.py": ["C17", "C08"],
    "moves/cell.py": ["C03", "C08"],
    "operations/displacement.py": ["C10", "C11"],
    "operations/cell.py": ["C10", "C08"],
    "operations/composite.py": ["C17", "C10"],
    "operations/core.py": ["C17", "C08"],
    "integrators/displacement.py": ["C14", "C12"],
    "utils/atoms.py": ["C19", "C03"],
    "utils/dynamics.py": ["C14", "C01"],
    "utils/moves.py": ["C08", "C07"],
    "io/core.py": ["C16", "C15"],
    "io/logger.py": ["C16", "C15"],
    "io/restart.py": ["C16", "C07"],
    "io/trajectory.py": ["C16"],
    "constraints.py": ["C12"],
}
SWAPS = {">=": ">", "<=": "<", ">": ">=", "<": "<=", "==": "!=", "!=": "==", "+": "-", "-": "+", "*": "/", "+=": "-=", "-=": "+=", "and": "or", "or": "and", "True": "False", "False": "True", "is": "is not", "min": "max", "max": "min", "0": "1", "1": "0", "2": "3", "0.5": "0.25", "any": "all", "all": "any"}


def sites(path):
    src = open(path).read()
    out = []
    toks = list(tokenize.generate_tokens(io.StringIO(src).readline))
    depth_doc = False
    for i, t in enumerate(toks):
        if t.type == tokenize.STRING or t.type == tokenize.COMMENT:
            continue
        s = t.string
        if s in SWAPS and t.type in (tokenize.OP, tokenize.NAME, tokenize.NUMBER):
            line = t.line
            if line.lstrip().startswith(("import ", "from ", "@", "def ", "class ")) or "TYPE_CHECKING" in line or "->" in line and s in ("-", ">"):
                continue
            if s in ("*", "-", "+") and re.search(r"\*\*|\*args|\*\*kw|\[-1\]|e-\d|:-|\(-", line):
                continue
            if s in ("0", "1", "2") and re.search(r"stacklevel|axis|range\(|\[\s*[012]\s*\]|shape|ndim|,\s*3\)", line):
                continue
            if s == "is" and "is not" in line:
                continue
            out.append((t.start, t.end, s))
    return src, out


def mutate(src, start, end, new):
    lines = src.splitlines(keepends=True)
    r, c0 = start
    _, c1 = end
    ln = lines[r - 1]
    lines[r - 1] = ln[:c0] + new + ln[c1:]
    return "".join(lines)


def run_one(k, rel, start, end, old, new):
    w = f"/tmp/am_{os.getpid()}_{k}"
    subprocess.run(["git", "-C", REPO, "worktree", "add", "-q", "--detach", w, "HEAD"], check=True)
    try:
        p = os.path.join(w, "src/quansino", rel)
        src = open(p).read()
        open(p, "w").write(mutate(src, start, end, new))
        if subprocess.run(["/venv/bin/python", "-m", "py_compile", p], capture_output=True).returncode != 0:
            return f"{k:03d} {rel}:{start[0]} {old!r}->{new!r} UNCOMPILABLE"
        codes = {}
        for cid in MAP[rel]:
            env = dict(os.environ, QVERIF_SRC=w + "/src", QVERIF_EVIDENCE_DIR=f"/tmp/am_ev_{os.getpid()}_{k}")
            try:
                rc = subprocess.run(["/verif/check", cid], env=env, capture_output=True, text=True, timeout=900).returncode
            except subprocess.TimeoutExpired:
                rc = 98
            codes[cid] = rc
            if rc == 1:
                break
        verdict = "KILLED" if 1 in codes.values() else ("SURVIVED" if all(v == 0 for v in codes.values()) else "OTHER")
        line = open(p).read().splitlines()[start[0] - 1].strip()
        return f"{k:03d} {rel}:{start[0]} {old!r}->{new!r} {verdict} {codes} | {line[:90]}"
    finally:
        subprocess.run(["git", "-C", REPO, "worktree", "remove", "--force", w], capture_output=True)
        subprocess.run(["rm", "-rf", f"/tmp/am_ev_{os.getpid()}_{k}"])


def main():
    n = int(sys.argv[1]) if len(sys.argv) > 1 else 40
    seed = int(sys.argv[2]) if len(sys.argv) > 2 else 1
    jobs = int(os.environ.get("JOBS", "4"))
    rnd = random.Random(seed)
    allsites = []
    for rel in MAP:
        p = os.path.join(REPO, "src/quansino", rel)
        if not os.path.exists(p):
            continue
        _, ss = sites(p)
        allsites += [(rel, s) for s in ss]
    picks = rnd.sample(allsites, min(n, len(allsites)))
    print(f"# {len(allsites)} candidate sites; {len(picks)} mutants; seed {seed}", flush=True)
    with ThreadPoolExecutor(max_workers=jobs) as ex:
        futs = [ex.submit(run_one, k, rel, s[0], s[1], s[2], SWAPS[s[2]]) for k, (rel, s) in enumerate(picks)]
        for f in futs:
            print(f.result(), flush=True)


if __name__ == "__main__":
    main()
