#!/usr/bin/env python3
"""Regenerates MANIFEST.json from the table below (kept valid at all times)."""
import json, os
ROOT = os.path.dirname(os.path.dirname(os.path.abspath(__file__)))
META = json.load(open(os.path.join(ROOT, "tools", "manifest_meta.json")))
ids = [json.loads(l)["id"] for l in open(os.path.join(ROOT, "properties.jsonl"))]
checks, na = [], []
for i in ids:
    m = META.get(i)
    if m and m.get("claimed") and os.path.exists(os.path.join(ROOT, "qverif", "props", i.lower() + ".py")):
        checks.append({
            "property_id": i,
            "quick_cmd": f"./check {i} --tier quick",
            "thorough_cmd": f"./check {i} --tier thorough",
            "evidence_file": f"evidence/{i}.json",
            "replay_cmd_template": f"./check {i} --replay {{path}}",
            "engine": "symx",
            "level_claimed": {"category": m["level"], "text": m["text"], "design_ref": m.get("design_ref", f"DESIGN.md section 3 ({i})")},
            "level_note": m["note"],
            "technique": m["technique"],
        })
    else:
        na.append({"property_id": i, "reason": (m or {}).get("na_reason", "check not built yet (build in progress; see DESIGN.md section 6b)")})
man = {
    "version": 1,
    "setup_cmd": "./setup.sh",
    "hooks": {"guard": "QUANSINO_VERIF", "enable": "none needed: checks patch quansino's module globals from outside and subclass ase.Atoms; /repo carries no instrumentation", "baseline_off_cmd": "cd /repo && /venv/bin/python -m pytest -ra -q -p no:cacheprovider --timeout=900 --continue-on-collection-errors", "source_commits": [], "add_only": True},
    "engines": [{"name": "symx", "path": "qverif/symx.py", "serves_properties": [c["property_id"] for c in checks], "kind_free_text": "shadow symbolic execution of the real quansino bytecode on z3-backed proxy values held in numpy object arrays (re-execution DFS over branch decisions); obligations discharged by z3 5.1 with per-query timeouts; every counterexample is replayed against the unpatched code before it is reported"}],
    "checks": checks,
    "not_applicable": na,
    "notes": "Exit codes: 0 holds within bounds, 1 reproduced violation, 2 inconclusive, 3 harness error. Known findings in known_findings.json. Every run regenerates the encoding from /repo's current source (the real functions are executed on solver-backed proxies), replays every solver counterexample on the unpatched real code before reporting it, and replays witnesses of clean symbolic paths on the real code to validate the encoding (path_validation in the evidence).",
}
json.dump(man, open(os.path.join(ROOT, "MANIFEST.json"), "w"), indent=1)
print("claimed:", [c["property_id"] for c in checks])
