#!/bin/bash
# tools/handmut.sh <file under src/quansino> <python-expr: s.replace(old,new)> <check ids...>
F=$1; OLD=$2; NEW=$3; shift 3
W=/tmp/hm_$$
git -C /repo worktree add -q --detach $W HEAD || exit 9
python3 - "$W/src/quansino/$F" "$OLD" "$NEW" <<'PY'
import sys
p,old,new=sys.argv[1:4]
s=open(p).read()
assert old in s, "pattern not found"
open(p,'w').write(s.replace(old,new,1))
PY
[ $? -eq 0 ] || { git -C /repo worktree remove --force $W; exit 9; }
for id in "$@"; do
  QVERIF_SRC=$W/src QVERIF_EVIDENCE_DIR=/tmp/hm_ev_$$ /verif/check $id --tier ${TIER:-quick} 2>&1 | grep -E "VIOLATION|UNCONF|^\[$id\]|harness-error|inconclusive" | head -6
done
git -C /repo worktree remove --force $W; rm -rf /tmp/hm_ev_$$
