#!/bin/bash
# tools/refactor_test.sh <dir with patch.diff> [ids...]  -- a behaviour-preserving change: every check must stay at exit 0
set -u
D=$(realpath "$1"); shift
IDS=${@:-C01 C02 C03 C04 C05 C06 C07 C08 C09 C10 C11 C12 C13 C14 C15 C16 C17 C18 C19 C20}
W=/tmp/rt_$$
git -C /repo worktree add -q --detach $W HEAD || exit 9
( cd $W && git apply "$D/patch.diff" ) || { echo "PATCH DOES NOT APPLY"; git -C /repo worktree remove --force $W; exit 9; }
for id in $IDS; do
  ( QVERIF_SRC=$W/src QVERIF_EVIDENCE_DIR=/tmp/rt_ev_$$ /verif/check $id --tier ${TIER:-quick} > /tmp/rt_$$_$id.log 2>&1; echo "$id exit=$? $(grep -E "^\[$id\]" /tmp/rt_$$_$id.log | cut -c1-90)" ) &
  while [ $(jobs -r | wc -l) -ge ${JOBS:-5} ]; do sleep 1; done
done
wait
grep -hE "VIOLATION|UNCONF|harness-error|inconclusive" /tmp/rt_$$_*.log | cut -c1-250 | head -20
git -C /repo worktree remove --force $W; rm -rf /tmp/rt_ev_$$ /tmp/rt_$$_*.log
