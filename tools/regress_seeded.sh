#!/bin/bash
# tools/regress_seeded.sh [jobs]  -- every seeded defect against the check(s) of the property it breaks (quick tier);
# prints one line per defect; "MISS" = no check named in meta.json's breaks_property reported a violation.
cd /verif
J=${1:-4}
one() {
  d=$1; n=$(basename $d)
  p=$(python3 -c "import json;m=json.load(open('$d/meta.json'));print(' '.join(m.get('checks',[m['breaks_property']])))")
  out=$(SKIPDEMO=1 timeout 1500 tools/mutant_test.sh $d $p 2>&1)
  if echo "$out" | grep -q "PATCH DOES NOT APPLY"; then echo "$n $p STALE-PATCH"; return; fi
  rc=$(echo "$out" | grep "check .* exit" | awk "{print \$NF}" | sort -u | grep -x 1 || echo 0)
  demo=$(echo "$out" | grep "demo with change" | awk '{print $5}')
  echo "$n $p check-exit=$rc demo-with-change=$demo $([ "$rc" = 1 ] && echo CAUGHT || echo MISS)"
}
export -f one
ls -d seeded/*/ | xargs -P $J -I{} bash -c 'one {}' | sort
