#!/bin/bash
# tools/mutant_test.sh <dir with patch.diff [demo.py]> <check id>...   -- scratch-worktree test of a seeded defect
set -u
D=$(realpath "$1"); shift
W=/tmp/mt_$$
git -C /repo worktree add -q --detach $W HEAD || exit 9
( cd $W && git apply "$D/patch.diff" ) || { echo "PATCH DOES NOT APPLY"; git -C /repo worktree remove --force $W; exit 9; }
if [ -f "$D/demo.py" ]; then
  ( cd /tmp && PYTHONPATH=$W/src timeout 600 /venv/bin/python "$D/demo.py" >/tmp/mt_demo_$$.log 2>&1 ); echo "demo with change: exit $? (expect non-zero)"
  ( cd /tmp && PYTHONPATH=/repo/src timeout 600 /venv/bin/python "$D/demo.py" >/tmp/mt_demo0_$$.log 2>&1 ); echo "demo without change: exit $? (expect 0)"
fi
for id in "$@"; do
  QVERIF_SRC=$W/src QVERIF_EVIDENCE_DIR=/tmp/mt_ev_$$ /verif/check $id --tier ${TIER:-quick} > /tmp/mt_out_$$.log 2>&1
  rc=$?   # (taken from the check itself: a `| head` closing the pipe early used to kill the check with SIGPIPE)
  grep -E "VIOLATION|KNOWN|UNCONF|^\[$id\]|harness-error|inconclusive" /tmp/mt_out_$$.log | head -12
  echo "check $id exit: $rc"
done
git -C /repo worktree remove --force $W; rm -rf /tmp/mt_ev_$$ /tmp/mt_demo_$$.log /tmp/mt_demo0_$$.log /tmp/mt_out_$$.log
