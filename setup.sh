#!/bin/bash
# Offline, idempotent: overlay venv on /venv's python 3.12 with z3-solver, cvc5, crosshair-tool
# from the local wheelhouse. Checks call this automatically when .venv is missing.
set -e
cd "$(dirname "$0")"
V=.venv
if [ -x "$V/bin/python" ] && "$V/bin/python" -c "import z3, cvc5, crosshair, numpy, ase" 2>/dev/null; then
  exit 0
fi
rm -rf "$V"
/venv/bin/python -m venv "$V"
SP=$("$V/bin/python" -c "import sysconfig; print(sysconfig.get_paths()['purelib'])")
echo "import site; site.addsitedir('/venv/lib/python3.12/site-packages')" > "$SP/zz_overlay.pth"
PIP_NO_INDEX=1 "$V/bin/pip" install -q --no-index --find-links /opt/veriftools/wheels z3-solver cvc5 crosshair-tool >/dev/null
"$V/bin/python" -c "import z3, cvc5, crosshair, numpy, ase; print('overlay venv ready: z3', z3.get_version_string())"
