"""Common driver: runs a property module's scenarios, gates every counterexample on a replay
against the unpatched real code, matches known findings, writes evidence, sets the exit code.

exit 0  all obligations discharged (KNOWN-FINDING lines allowed)
exit 1  reproduced violation that is not a listed known finding  (prints VIOLATION ...)
exit 2  inconclusive (solver unknown / bound hit / unsupported construct)
exit 3  harness error (candidate that does not reproduce, vacuous scenario, blind canary, ...)
"""
from __future__ import annotations

import hashlib
import importlib
import json
import os
import re
import subprocess
import sys
import time
import traceback
import warnings

ROOT = os.path.dirname(os.path.dirname(os.path.abspath(__file__)))
PY = os.path.join(ROOT, ".venv", "bin", "python")


def _jsonable(x):
    try:
        json.dumps(x)
        return x
    except TypeError:
        if isinstance(x, dict):
            return {str(k): _jsonable(v) for k, v in x.items()}
        if isinstance(x, (list, tuple, set)):
            return [_jsonable(v) for v in x]
        return repr(x)


class Report:
    def __init__(self, pid, tier, seed, level):
        self.pid, self.tier, self.seed, self.level = pid, tier, seed, level
        self.t0 = time.time()
        self.scen = []  # dicts
        self.candidates = []
        self.inconclusive = []
        self.harness_errors = []
        self.functions = set()
        self.assumptions = []
        self.stubs = []
        self.outside = []
        self.bounds = {}
        self.samples = []
        self.canaries = {"expected": 0, "killed": 0, "names": []}
        self.encoding_validations = 0
        self.validation_items = []
        self.extra = {}
        self.crosshair = []
        self.cvc5 = {"rechecked": 0, "agree": 0}

    # ---- adding results
    def add(self, name, res, params=None, expect_reach=(), canary=False):
        """Register an explore() Result for scenario `name`."""
        s = res.summary()
        s["scenario"] = name
        s["params"] = _jsonable(params or {})
        s["canary"] = canary
        self.scen.append(s)
        self.functions.update(res.functions)
        if canary:
            self.canaries["expected"] += 1
            if res.failures:
                self.canaries["killed"] += 1
                self.canaries["names"].append(name)
            else:
                self.harness_errors.append(f"canary {name} not killed: the oracle is blind")
            return
        for f in res.failures:
            self.candidates.append({"scenario": name, "params": _jsonable(params or {}), **f})
        for w in getattr(res, "validations", []) or []:
            self.validation_items.append({"scenario": name, "params": _jsonable(params or {}), "witness": w})
        for lab in res.inconclusive:
            self.inconclusive.append(f"{name}: solver unknown on obligation {lab}")
        for b in res.bound_hits:
            self.inconclusive.append(f"{name}: bound hit: {b}")
        for u in res.unsupported:
            self.inconclusive.append(f"{name}: unsupported construct: {u}")
        for e in res.errors:
            self.harness_errors.append(f"{name}: error on a path: {e}")
        for r in expect_reach:
            if not res.reached.get(r):
                self.harness_errors.append(f"{name}: scenario class '{r}' never reached (vacuous)")

    def note_sample(self, s):
        if len(self.samples) < 12:
            self.samples.append(_jsonable(s))


def _sig(c):
    return f"{c['label']}|{c.get('info') or ''}"


def load_known():
    p = os.path.join(ROOT, "known_findings.json")
    if not os.path.exists(p):
        return {"findings": [], "fixed": []}
    return json.load(open(p))


def match_known(pid, cand, known):
    for k in known.get("findings", []):
        if k["property"] != pid:
            continue
        if k.get("label") and not re.fullmatch(k["label"], cand["label"]):
            continue
        if k.get("scenario") and not re.fullmatch(k["scenario"], cand["scenario"]):
            continue
        if k.get("info") and not re.fullmatch(k["info"], str(cand.get("info") or "")):
            continue
        return k
    return None


def _validate_main(mod, items):
    """Replay clean-path witnesses on the real code: every obligation the symbolic run proved on that path must
    hold for the witness.  Prints one JSON line."""
    from .symx import Replay, ReplayMismatch

    out = []
    for it in items:
        fn = mod.SCENARIOS[it["scenario"].split("[")[0]]
        V = Replay(it["witness"])
        try:
            fn(V, **it.get("params", {}))
        except ReplayMismatch as ex:
            out.append({"scenario": it["scenario"], "status": "skipped", "why": f"path not followed: {ex}"[:160]})
            continue
        except Exception as ex:  # noqa: BLE001
            out.append({"scenario": it["scenario"], "status": "skipped", "why": f"{type(ex).__name__}: {ex}"[:160]})
            continue
        proved = set(it["witness"].get("labels") or [])
        bad = sorted({l for l in V.failed if l in proved})
        out.append({"scenario": it["scenario"], "status": "disagree" if bad else "agree", "failed": bad, "realized": bool(it["witness"].get("realized"))})
    print("VALIDATION-JSON " + json.dumps(out))
    return 0


def run_validations(rep, timeout=240):
    """Encoding validation: witnesses of clean symbolic paths, replayed against the unpatched real code."""
    items = rep.validation_items
    if not items:
        return
    import tempfile

    with tempfile.NamedTemporaryFile("w", suffix=".json", delete=False) as fh:
        json.dump(items, fh)
    env = dict(os.environ)
    env["PYTHONDONTWRITEBYTECODE"] = "1"
    env["QVERIF_MODE"] = "replay"
    res = []
    try:
        p = subprocess.run([PY, "-m", "qverif.main", rep.pid, "--validate", fh.name], cwd=ROOT, env=env, capture_output=True, text=True, timeout=timeout * symx_slack())
        for line in p.stdout.splitlines():
            if line.startswith("VALIDATION-JSON "):
                res = json.loads(line[len("VALIDATION-JSON "):])
    except subprocess.TimeoutExpired:
        res = []
    finally:
        os.unlink(fh.name)
    agree = [r for r in res if r["status"] == "agree"]
    dis = [r for r in res if r["status"] == "disagree"]
    rep.encoding_validations += len(agree)
    rep.extra["path_validation"] = {"clean paths replayed on the real code": len(res), "agree": len(agree), "agree with all uninterpreted functions pinned to true values": sum(1 for r in agree if r.get("realized")), "skipped": sum(1 for r in res if r["status"] == "skipped"), "disagree": [f"{r['scenario']}: {r['failed']}" for r in dis][:10]}
    for r in dis:
        msg = f"path validation: {r['scenario']}: obligation(s) {r['failed']} proved symbolically fail on the real code for the path's own witness"
        if os.environ.get("QVERIF_STRICT_VALIDATION"):
            rep.harness_errors.append(msg)
        else:
            # recorded in the evidence; not a verdict: the witness may sit on a decision boundary where exact
            # reals and floats legitimately differ
            print("NOTE " + msg)


def run_replay_file(pid, path, timeout=300):
    env = dict(os.environ)
    env["PYTHONDONTWRITEBYTECODE"] = "1"
    env["QVERIF_MODE"] = "replay"
    p = subprocess.run([PY, "-m", "qverif.main", pid, "--replay", path, "--quiet"], cwd=ROOT, env=env, capture_output=True, text=True, timeout=timeout)
    return p.returncode, (p.stdout + p.stderr)[-3000:]


def finish(rep: Report, max_replays_per_sig=4):
    known = load_known()
    try:
        run_validations(rep)
    except Exception as ex:  # noqa: BLE001
        rep.extra["path_validation"] = {"error": f"{type(ex).__name__}: {ex}"}
    evdir = os.environ.get("QVERIF_EVIDENCE_DIR") or os.path.join(ROOT, "evidence")
    os.makedirs(evdir, exist_ok=True)
    rdir = os.path.join(ROOT, "replays", rep.pid)
    # group candidates by signature; try a few witnesses per signature
    groups = {}
    for c in rep.candidates:
        groups.setdefault((c["scenario"], _sig(c)), []).append(c)
    violations, known_hits, unconfirmed = [], [], []
    replays_run = 0
    t_replays = time.time()
    for (scen, sig), cs in sorted(groups.items()):
        cs = sorted(cs, key=lambda c: c.get("prefix_len", 0))
        reproduced = None
        last_out = ""
        flat = []
        for c in cs[:max_replays_per_sig]:
            flat.append(c)
        for c in cs[:2]:
            for w in c.get("alts") or []:
                c2 = dict(c)
                c2["witness"] = w
                flat.append(c2)
        t_sig = time.time()
        for c in flat[: max_replays_per_sig + 8]:
            if time.time() - t_sig > 150 * symx_slack() or time.time() - t_replays > (900 if rep.tier == "quick" else 3600) * symx_slack():
                last_out = (last_out or "") + " [replay budget of this signature/check used up]"
                break
            os.makedirs(rdir, exist_ok=True)
            blob = {"property": rep.pid, "scenario": c["scenario"], "params": c["params"], "label": c["label"], "info": c.get("info"), "witness": c["witness"]}
            h = hashlib.sha1(json.dumps(blob, sort_keys=True).encode()).hexdigest()[:12]
            path = os.path.join(rdir, f"{h}.json")
            with open(path, "w") as fh:
                json.dump(blob, fh, indent=1)
            try:
                rc, out = run_replay_file(rep.pid, path)
            except subprocess.TimeoutExpired:
                rc, out = 99, "replay timeout"
            replays_run += 1
            last_out = out
            if rc == 1:
                reproduced = (c, path)
                break
            else:
                try:
                    os.remove(path)
                except OSError:
                    pass
        if not reproduced and cs and cs[0]["witness"].get("ranges") is not None:
            c = dict(cs[0])
            c["witness"] = dict(c["witness"])
            c["witness"]["random_trials"] = 40
            os.makedirs(rdir, exist_ok=True)
            blob = {"property": rep.pid, "scenario": c["scenario"], "params": c["params"], "label": c["label"], "info": c.get("info"), "witness": c["witness"]}
            h = hashlib.sha1(json.dumps(blob, sort_keys=True).encode()).hexdigest()[:12]
            path = os.path.join(rdir, f"{h}.json")
            with open(path, "w") as fh:
                json.dump(blob, fh, indent=1)
            try:
                rc, out = run_replay_file(rep.pid, path, timeout=600)
            except subprocess.TimeoutExpired:
                rc, out = 99, "replay timeout"
            replays_run += 1
            last_out = out
            if rc == 1:
                reproduced = (c, path)
            else:
                try:
                    os.remove(path)
                except OSError:
                    pass
        if reproduced:
            c, path = reproduced
            k = match_known(rep.pid, c, known)
            if k:
                known_hits.append((k, c, path))
            else:
                violations.append((c, path))
        else:
            unconfirmed.append((scen, sig, len(cs), last_out[-400:]))

    seen_known = {}
    for k, c, path in known_hits:
        seen_known.setdefault(k["id"], []).append((k, c, path))
    for kid, hits in seen_known.items():
        k, c, path = hits[0]
        print(f"KNOWN-FINDING: property={rep.pid} {k['what']} [id={kid}; {len(hits)} scenario signature(s), e.g. scenario={c['scenario']} label={c['label']}; replay={path}]")
    for c, path in violations:
        print(f"VIOLATION property={rep.pid} replay={path}")
        print(f"  scenario={c['scenario']} label={c['label']} info={c.get('info')}")
    for scen, sig, n, out in unconfirmed:
        rep.harness_errors.append(f"{scen}: {n} solver counterexample(s) for '{sig}' did not reproduce on the real code")
        print(f"UNCONFIRMED candidate (not reported as violation): scenario={scen} {sig}\n   replay said: {out.strip()[-300:]}")

    # exit code
    if violations:
        rc = 1
    elif rep.harness_errors:
        rc = 3
    elif rep.inconclusive:
        rc = 2
    else:
        rc = 0

    tot_paths = sum(s["paths"] for s in rep.scen)
    nq = {}
    for s in rep.scen:
        for k, v in s["queries"].items():
            nq[k] = nq.get(k, 0) + v
    obl = {}
    for s in rep.scen:
        if s["canary"]:
            continue
        for k, v in s["obligations"].items():
            st = k.rsplit(":", 1)[1]
            obl[st] = obl.get(st, 0) + v
    discharged = obl.get("unsat", 0) + obl.get("syntactic", 0)
    samples = rep.samples or [{"scenario": s["scenario"], "params": s["params"], "paths": s["paths"], "obligations": s["obligations"]} for s in rep.scen[:6]]
    cov = {
        "states": max(1, tot_paths),
        "transitions": max(1, discharged),
        "traces_validated_against_impl": rep.encoding_validations + replays_run,
        "programs": max(1, len([s for s in rep.scen if not s["canary"]])),
        "disagreements_checked": replays_run,
        "obligations": sum(obl.values()),
        "discharged": discharged,
        "evaluations": max(1, tot_paths),
        "distinct_nontrivial": max(2, tot_paths) if tot_paths >= 2 else 2,
        "rule": "one evaluation = one feasible symbolic path of the real code (a class of inputs sharing all branch outcomes); distinct by decision prefix; every path carries >=1 solver obligation",
        "samples": samples,
        "explanation": rep.extra.get("explanation", "bounded proof obligations over the real code executed symbolically; see DESIGN.md"),
        "exhaustive": False,
        "paths": tot_paths,
        "queries": nq,
        "solver_time_s": round(sum(s["solver_time_s"] for s in rep.scen), 2),
        "obligation_status": obl,
        "functions_encoded": sorted(rep.functions),
        "bounds": rep.bounds,
        "stubs": rep.stubs,
        "outside_claim": rep.outside,
        "scenarios": rep.scen,
        "canaries": rep.canaries,
        "encoding_validations": rep.encoding_validations,
        "replays_run": replays_run,
        "known_findings_matched": [k["id"] for k, _, _ in known_hits],
        "inconclusive": rep.inconclusive[:20],
        "harness_errors": rep.harness_errors[:20],
        "crosshair": rep.crosshair,
        "cvc5": {k.split(":", 1)[1]: v for k, v in nq.items() if k.startswith("cvc5:")},
        "exit_code": rc,
        "solver": "z3 " + __import__("z3").get_version_string(),
    }
    cov.update({k: v for k, v in rep.extra.items() if k != "explanation"})
    ev = {
        "property_id": rep.pid,
        "tier": rep.tier,
        "seed": rep.seed,
        "level": rep.level,
        "coverage": _jsonable(cov),
        "assumptions": rep.assumptions,
        "wall_s": round(time.time() - rep.t0, 2),
        "violations": len(violations),
    }
    with open(os.path.join(evdir, f"{rep.pid}.json"), "w") as fh:
        json.dump(ev, fh, indent=1)
    status = {0: "HOLDS (within bounds)", 1: "VIOLATED", 2: "INCONCLUSIVE", 3: "HARNESS-ERROR"}[rc]
    print(f"[{rep.pid}] {status}: paths={tot_paths} obligations={sum(obl.values())} discharged={discharged} queries={nq} replays={replays_run} known={len(known_hits)} wall={ev['wall_s']}s")
    for m in rep.inconclusive[:8]:
        print("  inconclusive:", m)
    for m in rep.harness_errors[:8]:
        print("  harness-error:", m)
    return rc


def main(argv=None):
    import argparse

    ap = argparse.ArgumentParser()
    ap.add_argument("pid")
    ap.add_argument("--tier", default=os.environ.get("VERIF_TIER", "quick"))
    ap.add_argument("--replay")
    ap.add_argument("--validate", help="file with clean-path witnesses to be replayed on the real code (internal)")
    ap.add_argument("--quiet", action="store_true")
    ap.add_argument("--only", default=None, help="regex over scenario names (debugging; evidence still written)")
    a = ap.parse_args(argv)
    pid = a.pid.upper()
    seed = int(os.environ.get("VERIF_SEED", "0") or 0)
    warnings.simplefilter("ignore")
    sys.dont_write_bytecode = True
    sys.set_int_max_str_digits(0)
    mod = importlib.import_module(f"qverif.props.{pid.lower()}")
    if a.validate:
        return _validate_main(mod, json.load(open(a.validate)))
    if a.replay:
        data = json.load(open(a.replay))
        try:
            ok, detail = mod.replay(data)
        except Exception:
            traceback.print_exc()
            print("replay: harness exception")
            return 4
        if ok:
            if not a.quiet or True:
                print(f"VIOLATION property={pid} replay={a.replay}")
                print("  reproduced:", detail)
            return 1
        print("replay: not reproduced:", detail)
        return 0
    tier = a.tier if a.tier in ("quick", "thorough") else "quick"
    rep = Report(pid, tier, seed, mod.LEVEL)
    os.environ["QVERIF_ONLY"] = a.only or ""
    try:
        mod.run(rep)
    except Exception:
        traceback.print_exc()
        rep.harness_errors.append("exception in harness driver: " + traceback.format_exc().strip().splitlines()[-1])
    return finish(rep)


def _scen_worker(args):
    name, params, opts, modname = args[:4]
    canary_label = args[4] if len(args) > 4 else None
    import importlib
    import warnings

    warnings.simplefilter("ignore")
    from . import shims, symx

    mod = importlib.import_module(modname)
    shims.patch_quansino(extra=getattr(mod, "patch_extra", lambda: None)())
    fn = mod.SCENARIOS[name]
    if isinstance(params.get("_opts"), dict):
        # per-scenario solver budgets (the scenario function accepts and ignores `_opts`)
        opts = {**opts, **params["_opts"]}
    symx._install_monitor()
    mk = (lambda: symx.CanarySym(canary_label)) if canary_label else symx.Sym
    if canary_label:
        opts = dict(opts)
        opts["no_witness"] = True
    conn = args[5] if len(args) > 5 else None
    last = [time.time()]

    def progress(res):
        # failures found so far survive a kill at the wall-clock limit (sent at most every 10 s)
        if conn is not None and res.failures and time.time() - last[0] > 10:
            last[0] = time.time()
            try:
                conn.send(("partial", res))
            except Exception:  # noqa: BLE001
                pass

    res = symx.explore(lambda: fn(mk(), **params), opts, workers=1, deadline_s=opts.get("deadline_s"), progress=progress)
    res.functions.update(symx._seen_code)
    return res


def symx_slack():
    from .symx import slack

    return slack()


def run_plan(rep, plan, scenarios, opts, workers=None, canaries=()):
    """plan: list of (scenario name, params, expected reach labels[, canary flag]).  Scenarios run in
    parallel processes (one symbolic exploration each)."""
    import multiprocessing as mp

    only = os.environ.get("QVERIF_ONLY") or None
    items = []
    for it in plan:
        name, params, reach = it[0], it[1], it[2]
        canary = it[3] if len(it) > 3 else False
        tag = name + "[" + ",".join(f"{k}={v}" for k, v in params.items()) + "]" + (f"<canary:{canary}>" if canary else "")
        if only and not re.search(only, tag):
            continue
        items.append((tag, name, params, reach, canary))
    modname = None
    for fn in scenarios.values():
        modname = fn.__module__
        break
    workers = workers or int(os.environ.get("QVERIF_WORKERS", "0")) or min(16, os.cpu_count() or 1)
    ctx = mp.get_context("fork")
    limit = float(opts.get("scenario_wall_s", 900 if rep.tier == "quick" else 2400))
    opts = dict(opts)
    opts.setdefault("deadline_s", limit * 0.8)
    opts.setdefault("validate_paths", 1 if rep.tier == "quick" else 3)  # per scenario: clean paths whose witness is replayed on the real code
    if rep.tier == "thorough":
        opts.setdefault("cvc5_recheck", 25)  # per scenario: z3 `unsat` verdicts re-decided by cvc5
    results = [None] * len(items)

    def child(conn, arg):
        try:
            r = _scen_worker(tuple(arg) + (conn,))
            conn.send(r)
        except BaseException as ex:  # noqa: BLE001
            try:
                conn.send(RuntimeError(f"{type(ex).__name__}: {ex}"))
            except Exception:
                pass
        finally:
            conn.close()
            os._exit(0)

    queue = list(range(len(items)))
    running = {}
    partial = {}
    peaks = {}

    def peak_slack(k):
        # the budget of a scenario is stretched by the highest load factor met while it ran (its queries were)
        peaks[k] = max(peaks.get(k, 1.0), symx_slack())
        return peaks[k]
    while queue or running:
        while queue and len(running) < workers:
            k = queue.pop(0)
            pc, cc = ctx.Pipe(duplex=False)
            _, name, params, _, _ = items[k]
            pr = ctx.Process(target=child, args=(cc, (name, params, opts, modname, items[k][4] or None)), daemon=True)
            pr.start()
            cc.close()
            running[k] = (pr, pc, time.time())
        done = []
        for k, (pr, pc, t0) in running.items():
            if pc.poll(0):
                try:
                    got = pc.recv()
                except (EOFError, OSError) as ex:
                    got = RuntimeError(f"worker died: {ex}")
                if isinstance(got, tuple) and len(got) == 2 and got[0] == "partial":
                    partial[k] = got[1]
                    continue
                results[k] = got
                done.append(k)
            elif not pr.is_alive():
                results[k] = RuntimeError("worker exited without a result")
                done.append(k)
            elif time.time() - t0 > limit * peak_slack(k):
                pr.kill()
                results[k] = None
                if k in partial:
                    results[k] = partial[k]
                    results[k].bound_hits.append(f"scenario wall-clock limit ({limit:.0f}s) hit after {partial[k].paths} paths (failures found until then are kept)")
                done.append(k)
        for k in done:
            pr, pc, _ = running.pop(k)
            pr.join(timeout=5)
            pc.close()
        if not done:
            time.sleep(0.02)
    for (tag, name, params, reach, canary), res in zip(items, results):
        if res is None or isinstance(res, Exception):
            from .symx import Result

            r = Result()
            if res is None:
                r.bound_hits.append(f"scenario wall-clock limit ({limit:.0f}s) hit: a solver query or the path count exceeded the budget")
            else:
                r.errors.append(f"worker failed: {res}")
            rep.add(tag, r, params, expect_reach=(), canary=bool(canary))
            continue
        rep.add(tag, res, params, expect_reach=() if canary else reach, canary=bool(canary))
        rep.note_sample({"scenario": tag, "paths": res.paths, "obligations": {f"{k[0]}:{k[1]}": v for k, v in res.oblig.items()}})


def run_crosshair(rep, name, per_condition_timeout=40):
    """Second engine (CrossHair 0.0.110) on the PEP316 twin `qverif/crosshair/<name>.py`.  Recorded in the
    evidence; 'Not confirmed' / 'Unable to meet precondition' are inconclusive cross-checks and do not
    change the verdict; a CrossHair counterexample on code that symx passed is a harness error."""
    path = os.path.join(ROOT, "qverif", "crosshair", name + ".py")
    env = dict(os.environ)
    env["PYTHONDONTWRITEBYTECODE"] = "1"
    t0 = time.time()
    try:
        p = subprocess.run([PY, "-m", "crosshair", "check", "--report_all", "--per_condition_timeout", str(per_condition_timeout), path], cwd=ROOT, env=env, capture_output=True, text=True, timeout=per_condition_timeout * 6 + 60)
        out = p.stdout + p.stderr
    except subprocess.TimeoutExpired:
        out = "timeout"
    if "Confirmed over all paths" in out:
        verdict = "confirmed over all paths"
    elif "error:" in out:
        verdict = "counterexample"
        rep.harness_errors.append(f"CrossHair twin {name} reports a counterexample that symx did not: " + [l for l in out.splitlines() if "error:" in l][0][-200:])
    elif "Not confirmed" in out:
        verdict = "not confirmed (inconclusive cross-check)"
    elif "Unable to meet precondition" in out:
        verdict = "unable to meet precondition (inconclusive cross-check)"
    else:
        verdict = "no verdict (" + out.strip()[-80:] + ")"
    rep.crosshair.append({"twin": name, "verdict": verdict, "per_condition_timeout_s": per_condition_timeout, "wall_s": round(time.time() - t0, 1)})


def _random_witness(base, seed):
    import random

    rnd = random.Random(seed)
    sym = {}
    for name, (kind, lo, hi) in (base.get("ranges") or {}).items():
        if kind == "B":
            sym[name] = rnd.random() < 0.5
        elif kind == "I":
            lo_ = -3 if lo is None else lo
            hi_ = lo_ + 6 if hi is None else hi
            sym[name] = rnd.randint(lo_, hi_)
        else:
            if lo is not None and hi is not None:
                sym[name] = rnd.uniform(lo, hi)
            elif lo is not None:
                sym[name] = lo + abs(rnd.gauss(0, 1)) * 10 ** rnd.uniform(-2, 2) + 1e-6
            elif hi is not None:
                sym[name] = hi - abs(rnd.gauss(0, 1)) * 10 ** rnd.uniform(-2, 2) - 1e-6
            else:
                sym[name] = rnd.gauss(0, 1) * 10 ** rnd.uniform(-1, 1.5)
    return {"symbols": sym, "draws": [], "ranges": base.get("ranges"), "random_seed": seed}


def generic_replay(scenarios):
    """Build a module-level replay(data) from a dict name -> harness(V, **params)."""
    from .symx import Replay, ReplayMismatch

    def one(data, witness):
        fn = scenarios[data["scenario"].split("[")[0]]
        V = Replay(witness)
        try:
            fn(V, **data.get("params", {}))
        except ReplayMismatch as ex:
            return False, f"mismatch: {ex}"
        except Exception as ex:  # noqa: BLE001
            from .symx import _quansino_origin

            origin = _quansino_origin()
            if data["label"] == "completes-without-raising" and origin:
                return True, f"the real code raises {type(ex).__name__} in {origin}: {str(ex)[:120]}"
            raise
        hit = [l for l in V.failed if l == data["label"]]
        if hit:
            return True, f"obligation '{data['label']}' fails on the real code"
        return False, f"failed labels on replay: {V.failed}"

    def replay(data):
        w = data["witness"]
        if w.get("random_trials"):
            last = "no trial"
            t_start = time.time()
            for t in range(int(w["random_trials"])):
                if time.time() - t_start > 45:
                    last += " (seeded search stopped after 45 s)"
                    break
                wt = _random_witness(w, 1000 + t)
                try:
                    ok, detail = one(data, wt)
                except Exception as ex:  # a trial outside the harness's preconditions
                    ok, detail = False, f"trial error {type(ex).__name__}: {ex}"
                last = detail
                if ok:
                    return True, detail + f" (solver flagged the obligation; concrete inputs found by seeded search, seed={1000 + t}: {wt['symbols']})"
            return False, last
        return one(data, w)

    return replay
