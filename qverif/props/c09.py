"""C09 -- move scheduling honours interval, probability and minimum count.

The real MonteCarlo.add_move / yield_moves run with symbolic intervals, weights, minimum counts and
step number and symbolic generator draws.  Per path the solver-decided facts must match a
reference schedule: nothing yielded when no move is due, otherwise exactly max_cycles names, only
due moves, every due move at least its minimum count, forced slots drawn without replacement, each
free slot one separate weighted choice over the due moves with p_i * sum(w_due) = w_i (so a
weight-zero move is never chosen freely); add_move refuses exactly the over-committing tables.
"""
from __future__ import annotations

import numpy as np
import z3

from .. import mcsim, shims, symx
from ..runner import Report, generic_replay, run_plan
from ..symx import E, SB, SI, SR, lift

ID = "C09"
LEVEL = "model_checking"


class BareMove:
    def __call__(self, context):
        return False

    def on_atoms_changed(self, a, r):
        pass

    def on_cell_changed(self, c):
        pass

    def to_dict(self):
        return {"name": "BareMove"}

    @classmethod
    def from_dict(cls, d):
        return cls()


class BareCriteria:
    def evaluate(self, context):
        return True

    def to_dict(self):
        return {"name": "BareCriteria"}

    @classmethod
    def from_dict(cls, d):
        return cls()


class SpyRNG:
    """Wraps the generator and records every choice() call with its arguments."""

    def __init__(self, inner):
        self.inner = inner
        self.calls = []

    def choice(self, a, size=None, replace=True, p=None):
        r = self.inner.choice(a, size=size, replace=replace, p=p)
        self.calls.append({"options": list(np.asarray(a).tolist()) if np.asarray(a).ndim else list(range(int(a))), "size": size, "replace": replace, "p": None if p is None else list(np.asarray(p, dtype=object).ravel().tolist()), "result": r})
        return r

    def __getattr__(self, k):
        return getattr(self.inner, k)


def _true(V, cond):
    """Is cond implied by the path condition (sym) / true (replay)?"""
    if V.mode != "sym":
        return bool(cond)
    if isinstance(cond, (bool, np.bool_)):
        return bool(cond)
    c = symx.sb(cond)
    r, _ = E()._check((z3.Not(c),), E().prove_timeout)
    return r == z3.unsat


def sc_yield(V, nmoves=2, cycles=2):
    from ase import Atoms

    from quansino.mc.core import MonteCarlo

    names = ["a", "b", "c"][:nmoves]
    mc = MonteCarlo(Atoms("H"), max_cycles=cycles, seed=1)
    rng = SpyRNG(mcsim.make_rng(V))
    mc._rng = rng
    mc.context.rng = rng
    iv, mn, w = {}, {}, {}
    for nm in names:
        mc.add_move(BareMove(), BareCriteria(), name=nm)
    for nm in names:
        iv[nm] = V.int(f"int_{nm}", 1, 3)
        mn[nm] = int(V.int(f"min_{nm}", 0, 2))  # concrete per path (numpy needs integer repeat counts)
        w[nm] = V.real(f"w_{nm}", lo=0, hi=10)
        st = mc.moves[nm]
        st.interval, st.minimum_count, st.probability = iv[nm], mn[nm], w[nm]
    step = V.int("step", 0, 6)
    mc.step_count = step
    # precondition of the statement: minimum counts of the table fit the cycles; due weights not all zero
    V.assume(sum(mn.values()) <= cycles)
    info = f"moves={nmoves}:cycles={cycles}"
    try:
        out = [str(x) for x in mc.yield_moves()]
    except (symx.PathAbort, symx.BoundHit, symx.Unsupported, symx.ReplayMismatch):
        raise
    except ZeroDivisionError:
        return  # all due weights zero: excluded by the statement
    except ValueError as ex:
        if "probabilities" in str(ex) or "NaN" in str(ex) or "sum to 1" in str(ex):
            return  # numpy's own refusal of an all-zero weight vector (replay only)
        V.fail("scheduling-completes", info=info + ":ValueError:" + str(ex)[:60])
        return
    # which moves are due is decided here (a fork where the code under test left it open), so that a
    # scheduler that never looked at a move's interval is judged by the clauses below
    due = [nm for nm in names if bool((step % iv[nm]) == 0)]
    wsum = sum((w[nm] for nm in due), 0.0)
    nfree_expected = cycles - sum(mn[nm] for nm in due)
    if V.mode == "sym":
        if due and nfree_expected > 0 and not _true(V, SB(lift(wsum) > 0)):
            V.assume(SB(lift(wsum) > 0))  # free slots need a positive due weight (statement's precondition)
    elif due and nfree_expected > 0 and wsum <= 0:
        raise symx.ReplayMismatch("all due weights zero")
    V.reach("none-due" if not due else "some-due")
    if not due:
        V.prove(out == [], "nothing-yielded-when-no-move-is-due", info=info + f":{out}")
        return
    V.prove(len(out) == cycles, "exactly-max_cycles-moves", info=info + f":{len(out)}")
    V.prove(all(x in due for x in out), "only-due-moves-are-attempted", info=info + f":out={out}:due={due}")
    V.prove(all(out.count(nm) >= mn[nm] for nm in due), "every-due-move-at-least-its-minimum-count", info=info + f":out={out}:min={mn}")
    nforced = sum(mn[nm] for nm in due)
    calls = rng.calls
    forced_calls = [c for c in calls if c["size"] is not None]
    free_calls = [c for c in calls if c["size"] is None]
    V.prove(len(forced_calls) == 1 and forced_calls[0]["replace"] is False and int(forced_calls[0]["size"]) == nforced and forced_calls[0]["options"] == list(range(cycles)), "forced-slots-drawn-without-replacement", info=info)
    V.prove(len(free_calls) == cycles - nforced, "one-separate-draw-per-free-slot", info=info + f":{len(free_calls)}!={cycles - nforced}")
    ok_opts, ok_p, ok_pos = True, True, True
    for c in free_calls:
        ok_opts = ok_opts and [str(x) for x in c["options"]] == due
        if c["p"] is None or len(c["p"]) != len(due):
            ok_p = False
            continue
        for nm, pi in zip(due, c["p"]):
            if V.mode == "sym":
                ok_p = ok_p and _true(V, SB(lift(pi) * lift(wsum) == lift(w[nm])))
            else:
                ok_p = ok_p and abs(float(pi) * float(wsum) - float(w[nm])) <= 1e-12 * max(1.0, float(wsum))
        chosen = str(c["result"])
        if chosen in due:
            ok_pos = ok_pos and _true(V, SB(lift(w[chosen]) > 0) if V.mode == "sym" else w[chosen] > 0)
        else:
            ok_pos = False
    V.prove(ok_opts, "free-slots-choose-among-the-due-moves", info=info)
    V.prove(ok_p, "free-slot-probabilities-proportional-to-due-weights", info=info)
    V.prove(ok_pos, "weight-zero-move-never-chosen-freely", info=info)


def sc_add_move(V, cycles=3, nmoves=2):
    from ase import Atoms

    from quansino.mc.core import MonteCarlo

    mc = MonteCarlo(Atoms("H"), max_cycles=cycles, seed=1)
    table = tuple((chr(ord("a") + i), V.int(f"m{i + 1}", 0, cycles + 1)) for i in range(nmoves))
    info = f"cycles={cycles}:moves={nmoves}"
    raised = []
    for nm, m in table:
        try:
            mc.add_move(BareMove(), BareCriteria(), name=nm, minimum_count=m)
            raised.append(False)
        except ValueError:
            raised.append(True)
    # reference: a move is refused iff the minimum counts stored so far plus its own exceed the cycles
    stored = 0
    for (nm, m), r in zip(table, raised):
        over = (stored + m) > cycles
        V.prove(_true(V, over) if r else _true(V, SB(z3.Not(symx.sb(over))) if V.mode == "sym" else not over), "refused-iff-over-committed", info=info + f":{nm}:raised={r}")
        if not r:
            V.prove(nm in mc.moves and _true(V, mc.moves[nm].minimum_count == m), "accepted-move-is-stored", info=info)
            stored = stored + m
        else:
            V.prove(nm not in mc.moves, "refused-move-is-not-stored", info=info)
    V.reach("done")


SCENARIOS = {"yield": sc_yield, "add_move": sc_add_move}
replay = generic_replay(SCENARIOS)


def _plan(tier):
    q = tier == "quick"
    R = ("none-due", "some-due")
    P = [
        ("yield", dict(nmoves=2, cycles=2), R),
        ("yield", dict(nmoves=2, cycles=3), R),
        ("yield", dict(nmoves=1, cycles=1), R),
        ("add_move", dict(cycles=1), ("done",)),
        ("add_move", dict(cycles=3), ("done",)),
        ("add_move", dict(cycles=3, nmoves=3), ("done",)),
    ]
    if not q:
        P.append(("yield", dict(nmoves=3, cycles=3), R))
        P.append(("yield", dict(nmoves=2, cycles=4), R))
        P.append(("yield", dict(nmoves=3, cycles=2), R))
        P.append(("add_move", dict(cycles=4, nmoves=4), ("done",)))
    P.append(("yield", dict(nmoves=2, cycles=2), (), "free-slot-probabilities-proportional-to-due-weights"))
    return P


def run(rep: Report):
    tier = rep.tier
    opts = {"prove_timeout_ms": 10000, "fork_timeout_ms": 2000, "seed": rep.seed, "scenario_wall_s": 900 if tier == "quick" else 1500}
    run_plan(rep, _plan(tier), SCENARIOS, opts)
    if tier == "thorough":
        from ..runner import run_crosshair

        run_crosshair(rep, "ch_c09")
    rep.bounds = {"moves": "<=2 (quick) / <=3", "cycles": "1-3 (quick) / 1-4", "intervals": "symbolic in [1,3]", "step": "symbolic in [0,6] (forks are on step % interval == 0, not on values)", "minimum counts": "[0,2], sum <= cycles", "add_move": "2-3 (quick) / 4 successive additions with symbolic minimum counts in [0,cycles+1]", "weights": "symbolic reals in [0,10], due weights not all zero"}
    rep.assumptions = ["numpy Generator.choice contract: choice(a, p) returns a[k] with p[k] > 0; choice(arange(n), size=k, replace=False) returns k distinct slots"]
    rep.stubs = ["SymRNG behind a recording wrapper", "bare move/criteria objects"]
    rep.outside = ["the selection frequency itself (follows from p by numpy's contract)"]
    rep.extra["explanation"] = "bounded model checking of the real scheduler with symbolic intervals/weights/step and symbolic draws"
