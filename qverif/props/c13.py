"""C13 -- force-bias steps are bounded and follow the Bal-Neyts density.

The real ForceBias.step runs with ONE symbolic force coordinate at a time (the other coordinates
carry concrete forces from a small family), symbolic delta, T and all draws.  A reference rejection
sampler written from the paper runs in lockstep on the same draw symbols: the solver must decide
every acceptance test of the reference under the path condition of the real code (so the code's
test is the Bal-Neyts function), the final zeta must be the reference's, no draw may be skipped or
reused, every exp argument must stay below ln(DBL_MAX), and the configuration advances exactly once.
"""
from __future__ import annotations

import math

import numpy as np
import z3

from .. import shims, symx
from ..runner import Report, generic_replay, run_plan
from ..symx import E, SB, SR, lift

ID = "C13"
LEVEL = "translation_validation"
UNWIND = 3


class ForceCalc:
    def __init__(self, forces):
        self.forces = forces
        self.results = {}
        self.nE = 0

    def get_forces(self, atoms=None):
        return self.forces.copy()

    def get_potential_energy(self, atoms=None, force_consistent=False):
        self.nE += 1
        return 0.0


def _exp(V, x):
    if V.mode == "sym":
        if symx.is_sym(x):
            return SR(E().app("exp", lift(x)))
        return math.exp(x)
    return math.exp(x)


def bal_neyts(V, zeta, gamma):
    """Bal & Neyts, J. Chem. Phys. 141, 204104 (2014): un-normalised acceptance function of zeta in
    [-1,1] for reduced force gamma != 0 (gamma == 0: constant 1)."""
    den = _exp(V, gamma) - _exp(V, -gamma)
    pos = (_exp(V, gamma) - _exp(V, gamma * (2 * zeta - 1))) / den
    neg = (_exp(V, gamma * (2 * zeta + 1)) - _exp(V, -gamma)) / den
    return pos, neg


def _truth(V, cond):
    """Truth value of a reference condition under the real code's path condition: True / False / None."""
    if V.mode != "sym":
        return bool(cond)
    c = symx.sb(cond)
    s = z3.simplify(c)
    if z3.is_true(s):
        return True
    if z3.is_false(s):
        return False
    eng = E()
    r1, _ = eng._check((z3.Not(c),), eng.prove_timeout)
    if r1 == z3.unsat:
        return True
    r2, _ = eng._check((c,), eng.prove_timeout)
    if r2 == z3.unsat:
        return False
    if r1 == z3.unknown or r2 == z3.unknown:
        return "unknown"
    return None


OTHERS = {
    "zero": (0.0, 0.0),
    "mixed": (3.0e-7, -2.0),  # tiny and moderate (gamma ~ 7e-7 and ~ -4.6 at delta=0.12, T=300 K)
}


def sc_step(V, natoms=1, others="zero", per_coord_delta=False, power=0.25, symbolic="f", shaped_masses=False, reassign=False):
    from ase.units import kB

    from quansino.mc.fbmc import ForceBias

    # one of {force, delta} symbolic per query; T concrete here (the acceptance function itself is
    # checked for symbolic f, delta, T in the `density` scenario)
    f = V.real("f") if symbolic == "f" else -3.7
    T = 300.0
    info = f"atoms={natoms}:others={others}:percoord={per_coord_delta}:p={power}:sym={symbolic}:shaped={shaped_masses}"
    if V.mode == "sym":
        atoms = shims.SymAtoms("HO"[:natoms], positions=[[0.0, 0.0, 0.0], [1.5, 0.2, -0.3]][:natoms])
    else:
        from ase import Atoms

        atoms = Atoms("HO"[:natoms], positions=[[0.0, 0.0, 0.0], [1.5, 0.2, -0.3]][:natoms])
    masses = np.array([1.0, 16.0][:natoms])
    atoms.set_masses(masses)
    F = np.zeros((natoms, 3), dtype=object if V.mode == "sym" else float)
    F[0, 0] = f
    F[0, 1], F[0, 2] = OTHERS[others]
    atoms.calc = ForceCalc(F)
    d0 = V.real("delta", lo=0, lo_strict=True, hi=10) if symbolic == "delta" else 0.12
    if per_coord_delta:
        delta = np.full((natoms, 3), 0.05, dtype=object if (V.mode == "sym" and symbolic == "delta") else float)
        delta[0, 0] = d0
    else:
        delta = d0
    if reassign:
        # delta and temperature are plain public attributes: set on the live driver
        fb = ForceBias(atoms, delta=0.77, temperature=1234.0, seed=3)
        fb.delta = delta
        fb.temperature = T
    else:
        fb = ForceBias(atoms, delta=delta, temperature=T, seed=3)
    fb.masses_scaling_power = power
    if shaped_masses:
        # per-coordinate masses (public update_masses): the bound refers to the smallest of ALL of them
        shaped = np.array([[1.0, 4.0, 16.0], [2.0, 8.0, 32.0]][:natoms])
        fb.update_masses(shaped)
    if V.mode == "sym":
        # control structure only: exp stays a bare uninterpreted function here (congruence suffices;
        # its analytic properties are used in the `density` scenario)
        E().no_axioms = ("exp",)
        rng = shims.SymRNG("fb")
        calls = [0]
        orig = fb.get_zeta

        def gz():
            calls[0] += 1
            if calls[0] > UNWIND:
                E().reach("cut-at-unwind-bound")
                raise symx.PathAbort()
            return orig()

        fb.get_zeta = gz
    else:
        rng = shims.ScriptedRNG(V.w)
    fb._rng = rng
    pos0 = np.array(atoms.get_positions(), dtype=object if V.mode == "sym" else float)
    try:
        if V.mode == "sym":
            fb.step()
        else:
            # replay on the real code: a step that does not come back is the termination clause failing
            import signal

            class _Hung(Exception):
                pass

            def _alarm(*a):
                raise _Hung()

            old = signal.signal(signal.SIGALRM, _alarm)
            signal.alarm(8)
            try:
                with np.errstate(all="ignore"):
                    fb.step()
            except _Hung:
                V.fail("exp-arguments-below-overflow", info=info + ":step-did-not-terminate")
                V.fail("terminates", info=info)
                return
            finally:
                signal.alarm(0)
                signal.signal(signal.SIGALRM, old)
    except symx.Unsupported:
        raise
    except (symx.PathAbort, symx.BoundHit):
        raise
    except Exception as ex:  # noqa: BLE001
        V.fail("no-exception", info=info + ":" + type(ex).__name__)
        return
    V.reach("stepped")
    # the trial displacement is drawn uniformly from the whole interval [-1, 1) (times the bound): the range REQUESTED
    # from the generator is part of the sampler, the lockstep reference below only sees the numbers that came back
    if V.mode == "sym":
        asked = [(d.get("low"), d.get("high")) for d in E().draws if d["kind"] == "uniform"]
    else:
        asked = [(lo, hi) for k, lo, hi in rng.requests if k == "uniform"]
    V.prove(bool(asked) and all(lo is not None and hi is not None and float(lo) == -1.0 and float(hi) == 1.0 for lo, hi in asked), "zeta-requested-from-[-1,1)", info=info + f":asked={asked[:2]}")
    # ---------------- reference sampler in lockstep on the same draws
    if V.mode == "sym":
        log = [(d["kind"], np.asarray(d["value"], dtype=object)) for d in E().draws]
    else:
        log = None
    shape = (natoms, 3)
    gam = np.empty(shape, dtype=object)
    for idx in np.ndindex(*shape):
        dl = delta[idx] if per_coord_delta else delta
        x = F[idx] * dl / (2 * T * kB)
        gmax = 709.782712
        if V.mode == "sym" and symx.is_sym(x):
            gam[idx] = symx.ite(SB(lift(x) < lift(-gmax)), -gmax, symx.ite(SB(lift(x) > lift(gmax)), gmax, x))
        else:
            gam[idx] = min(max(float(x), -gmax), gmax)
    if V.mode == "sym":
        for idx in np.ndindex(*shape):
            if symx.is_sym(gam[idx]):
                g_ = lift(gam[idx])
                # the one analytic fact the control-structure check needs: exp is injective
                E().axiom(z3.Implies(g_ != 0, E().app("exp", g_) != E().app("exp", -g_)))
        it = iter(log)

        def nxt(kind, n):
            try:
                k, v = next(it)
            except StopIteration:
                return None
            if k != kind or v.size != n:
                return None
            return v.ravel().tolist()

        zeta = {}
        active = list(np.ndindex(*shape))
        iters = 0
        ok = True
        while active:
            iters += 1
            zs = nxt("uniform", len(active))
            rs = nxt("random", len(active))
            if zs is None or rs is None:
                V.fail("sampler-draw-structure", info=info + f":iteration={iters}")
                ok = False
                break
            still = []
            for idx, z, r in zip(active, zs, rs):
                zeta[idx] = z
                g = gam[idx]
                gz_ = _truth(V, SB(lift(g) == 0)) if symx.is_sym(g) else (g == 0)
                if gz_ is True:
                    acc = True
                elif gz_ is False:
                    pos, neg = bal_neyts(V, z, g)
                    # zeta == 0: sign(0)=0 gives 0/den in the code; the density is continuous there, measure zero
                    V.assume(SB(lift(z) != 0))
                    p = symx.ite(SB(lift(z) > 0), pos, neg)
                    acc = _truth(V, SB(lift(p) > lift(r)))
                else:
                    acc = gz_
                if acc is True:
                    continue
                if acc is False:
                    still.append(idx)
                    continue
                V.fail("acceptance==bal-neyts", info=info + f":coord={idx}:undecided={acc}")
                ok = False
                break
            if not ok:
                break
            active = still
        if ok:
            V.prove(next(it, None) is None, "no-extra-draws", info=info)
            zf = np.asarray(fb.zeta, dtype=object)
            V.prove(symx.sand(*[SB(lift(zf[idx]) == lift(zeta[idx])) for idx in np.ndindex(*shape)]), "final-zeta==first-accepted-draw", info=info)
            V.reach(f"iterations={iters}")
    # ---------------- bound, single advance, termination
    new = np.asarray(atoms.get_positions(), dtype=object if V.mode == "sym" else float)
    mass_of = (lambda idx: shaped[idx]) if shaped_masses else (lambda idx: masses[idx[0]])
    mmin = float(np.min(shaped)) if shaped_masses else float(np.min(masses))
    goals_b, goals_o = [], []
    zf = np.asarray(fb.zeta, dtype=object if V.mode == "sym" else float)
    for idx in np.ndindex(*shape):
        dl = delta[idx] if per_coord_delta else delta
        scale = (mmin / float(mass_of(idx))) ** power
        bound = dl * scale
        dr = new[idx] - pos0[idx]
        exp_dr = zf[idx] * dl * scale
        if V.mode == "sym":
            goals_b.append(z3.And(lift(dr) <= lift(bound), lift(dr) >= -lift(bound)))
            goals_o.append(lift(dr) == lift(exp_dr))
        else:
            tol = 1e-9 * max(1.0, abs(float(bound)))
            goals_b.append(abs(dr) <= bound + tol)
            goals_o.append(abs(dr - exp_dr) <= tol)
    V.prove(SB(z3.And(*goals_b)) if V.mode == "sym" else all(goals_b), "displacement-bounded", info=info)
    V.prove(SB(z3.And(*goals_o)) if V.mode == "sym" else all(goals_o), "advanced-exactly-once", info=info)
    if V.mode == "sym":
        args = E().np_exp_args
        V.prove(SB(z3.And(*[a <= z3.RealVal(symx.EXPMAX) for a in args])) if args else True, "exp-arguments-below-overflow", info=info)
    else:
        # replay of the density clause: the real acceptance test against the reference on the model's draws
        draws = V.w.get("draws", [])
        try:
            z0 = np.array(shims._deep_float(draws[0]["value"]), dtype=float).reshape(shape)
            r0 = np.array(shims._deep_float(draws[1]["value"]), dtype=float).reshape(shape)
        except Exception:
            return
        fb2 = ForceBias(atoms, delta=delta, temperature=T, seed=3)
        fb2.masses_scaling_power = power
        fb2.current_size = shape
        fb2.calculate_gamma(F)
        fb2.zeta = z0.copy()
        pc = np.asarray(fb2.calculate_trial_probability(), dtype=float)
        bad = False
        for idx in np.ndindex(*shape):
            g = float(gam[idx])
            if g == 0 or z0[idx] == 0:
                ref = 1.0 if g == 0 else None
            else:
                pos, neg = bal_neyts(V, z0[idx], g)
                ref = pos if z0[idx] > 0 else neg
            if ref is None:
                continue
            if abs(pc[idx] - ref) > 1e-6 * max(1.0, abs(ref)) and ((pc[idx] > r0[idx]) != (ref > r0[idx]) or abs(pc[idx] - ref) > 1e-3):
                bad = True
        V.prove(not bad, "acceptance==bal-neyts", info=info)


def sc_density(V, sign=1):
    """calculate_trial_probability as a function: equals Bal-Neyts, lies in [0,1], positive inside (-1,1)."""
    from ase.units import kB

    from quansino.mc.fbmc import ForceBias

    f = V.real("f")
    T = V.real("T", lo=1e-3, hi=1e5)
    delta = V.real("delta", lo=0, lo_strict=True, hi=10)
    z = V.real("zeta", lo=-1, hi=1, lo_strict=True, hi_strict=True)
    if V.mode == "sym":
        V.assume(SB(lift(z) > 0) if sign > 0 else SB(lift(z) < 0))
        V.assume(SB(lift(f) != 0))
        atoms = shims.SymAtoms("H", positions=[[0.0, 0.0, 0.0]])
    else:
        from ase import Atoms

        if (z > 0) != (sign > 0) or f == 0:
            raise symx.ReplayMismatch("sign")
        atoms = Atoms("H", positions=[[0.0, 0.0, 0.0]])
    fb = ForceBias(atoms, delta=delta, temperature=T, seed=3)
    F = np.zeros((1, 3), dtype=object if V.mode == "sym" else float)
    F[0, 0] = f
    fb.current_size = (1, 3)
    fb.calculate_gamma(F)
    Z = np.zeros((1, 3), dtype=object if V.mode == "sym" else float)
    Z[0, 0] = z
    Z[0, 1], Z[0, 2] = 0.25, -0.5
    fb.zeta = Z
    pc = fb.calculate_trial_probability()
    p = pc[0, 0]
    x = f * delta / (2 * T * kB)
    if V.mode == "sym":
        gmax = 709.782712
        g = symx.ite(SB(lift(x) < lift(-gmax)), -gmax, symx.ite(SB(lift(x) > lift(gmax)), gmax, x))
        pos, neg = bal_neyts(V, z, g)
        ref = pos if sign > 0 else neg
        V.prove(SB(lift(p) == lift(ref)), "probability==bal-neyts", info=f"sign={sign}")
        V.prove(SB(z3.And(lift(p) >= 0, lift(p) <= 1)), "probability-in-[0,1]", info=f"sign={sign}")
        V.prove(SB(lift(p) > 0), "positive-inside-interval", info=f"sign={sign}")
        V.prove(SB(lift(pc[0, 1]) == 1) if symx.is_sym(pc[0, 1]) else pc[0, 1] == 1, "zero-force-coordinate-accepts-always", info="gamma=0")
    else:
        g = min(max(float(x), -709.782712), 709.782712)
        pos, neg = bal_neyts(V, z, g)
        ref = pos if sign > 0 else neg
        V.prove(abs(float(p) - ref) <= 1e-9 * max(1.0, abs(ref)) + 1e-12, "probability==bal-neyts")
        V.prove(-1e-12 <= float(p) <= 1 + 1e-12, "probability-in-[0,1]")
        V.prove(float(p) > 0, "positive-inside-interval")
        V.prove(float(pc[0, 1]) == 1.0, "zero-force-coordinate-accepts-always")
    V.reach("done")


SCENARIOS = {"step": sc_step, "density": sc_density}
replay = generic_replay(SCENARIOS)


def _plan(tier):
    plan = [
        ("density", dict(sign=1), ("done",)),
        ("density", dict(sign=-1), ("done",)),
        ("step", dict(natoms=1, others="zero", per_coord_delta=False, power=0.25, symbolic="f"), ("stepped",)),
        ("step", dict(natoms=1, others="zero", per_coord_delta=False, power=0.25, symbolic="delta"), ("stepped",)),
        ("step", dict(natoms=2, others="zero", per_coord_delta=False, power=0.25, symbolic="f"), ("stepped",)),
        ("step", dict(natoms=1, others="zero", per_coord_delta=True, power=0.5, symbolic="delta"), ("stepped",)),
        ("step", dict(natoms=2, others="zero", per_coord_delta=False, power=0.25, symbolic="delta", shaped_masses=True), ("stepped",)),
        ("step", dict(natoms=1, others="zero", per_coord_delta=False, power=0.25, symbolic="f", reassign=True), ("stepped",)),
        ("step", dict(natoms=1, others="zero", per_coord_delta=False, power=0.25, symbolic="delta", reassign=True), ("stepped",)),
    ]
    if tier != "quick":
        plan.append(("step", dict(natoms=2, others="zero", per_coord_delta=True, power=1.0, symbolic="delta"), ("stepped",)))
        plan.append(("step", dict(natoms=2, others="zero", per_coord_delta=False, power=0.0, symbolic="f"), ("stepped",)))
        plan.append(("step", dict(natoms=2, others="zero", per_coord_delta=True, power=0.5, symbolic="f"), ("stepped",)))
    plan.append(("density", dict(sign=1), (), "probability==bal-neyts"))
    plan.append(("step", dict(natoms=1, others="zero", per_coord_delta=False, power=0.25, symbolic="f"), (), "final-zeta==first-accepted-draw"))
    return plan


def run(rep: Report):
    tier = rep.tier
    opts = {"prove_timeout_ms": 10000 if tier == "quick" else 30000, "fork_timeout_ms": 3000, "seed": rep.seed, "scenario_wall_s": 900 if tier == "quick" else 600}
    run_plan(rep, _plan(tier), SCENARIOS, opts)
    rep.bounds = {"atoms": "1-2", "symbolic force coordinates": "one at a time (the other coordinates carry zero force; non-zero concrete forces on other coordinates mix float-evaluated and uninterpreted exp and are left out)", "rejection loop": f"unwound {UNWIND}x (longer paths cut; the per-iteration obligations are inductive in the iteration count)", "delta": "(0,10] scalar or per-coordinate", "T": "[1e-3,1e5] K"}
    rep.assumptions = ["exp uninterpreted with true axioms (monotone, positive, range facts)", "floats as exact reals; zeta == 0 excluded (measure zero, density continuous there)", "masses concrete (1, 16); scaling power concrete"]
    rep.stubs = ["ForceCalc: calculator returning given forces", "SymRNG: uniform(-1,1)/random() draws as fresh bounded reals"]
    rep.outside = ["the statistical fit of sampled displacements (follows from the rejection-sampling premise proved here)", "more than one symbolic force coordinate per query"]
