"""C18 -- adaptive force-bias step length stays in range and shrinks with uncertainty.

The real AdaptiveForceBias.update_delta (both schemes, both update functions) runs on symbolic
min/max delta, reference variance and committee data; z3 proves range, the anchors at zero and at
the reference variance, the large-variance limit, monotonicity (two runs, v1 <= v2) and the
no-committee fallback.
"""
from __future__ import annotations

import math

import numpy as np
import z3

from .. import shims, symx
from ..runner import Report, generic_replay, run_plan
from ..symx import E, SB, SR, lift

ID = "C18"
LEVEL = "translation_validation"


class CommitteeCalc:
    def __init__(self, results):
        self.results = results

    def get_forces(self, atoms=None):
        return np.zeros((len(atoms), 3))

    def get_potential_energy(self, atoms=None, force_consistent=False):
        return 0.0


def _mk(V, scheme, update, natoms=1, reassign=False):
    from quansino.mc.fbmc import AdaptiveForceBias

    dmin = V.real("dmin", lo=0, lo_strict=True, hi=5)
    span = V.real("span", lo=0, hi=5)
    dmax = dmin + span
    ref = V.real("ref", lo=1e-6, hi=100)
    ref_final = ref
    if reassign:
        # the documented settings are plain attributes: set them on the live object
        ref = V.real("ref_init", lo=1e-6, hi=100)
    if V.mode == "sym":
        atoms = shims.SymAtoms("HO"[:natoms], positions=[[0.0, 0.0, 0.0], [1.1, 0.3, 0.2]][:natoms])
    else:
        from ase import Atoms

        atoms = Atoms("HO"[:natoms], positions=[[0.0, 0.0, 0.0], [1.1, 0.3, 0.2]][:natoms])
    if reassign:
        fb = AdaptiveForceBias(atoms, min_delta=V.real("dmin_init", lo=0, lo_strict=True, hi=5), max_delta=V.real("dmax_init", lo=5, hi=10), temperature=300.0, scheme=scheme, reference_variance=ref, update_function=update, seed=5)
        fb.reference_variance = ref_final
        fb.min_delta = dmin
        fb.max_delta = dmax
    else:
        fb = AdaptiveForceBias(atoms, min_delta=dmin, max_delta=dmax, temperature=300.0, scheme=scheme, reference_variance=ref, update_function=update, seed=5)
    return fb, atoms, dmin, dmax, ref_final


def _between(V, x, lo, hi, tol=0.0):
    if V.mode == "sym":
        return z3.And(lift(x) >= lift(lo) - lift(tol), lift(x) <= lift(hi) + lift(tol))
    return lo - tol - 1e-12 <= x <= hi + tol + 1e-12


def sc_energy(V, update="tanh", case="general", reassign=False):
    """Energy scheme with a two-member committee: v = std(e1,e2)/N = |e1-e2|/(2N)."""
    fb, atoms, dmin, dmax, ref = _mk(V, "energy", update, reassign=reassign)
    n = len(atoms)
    info = f"energy:{update}:{case}:reassign={reassign}"
    if case == "nodata":
        atoms.calc = CommitteeCalc({})
        fb.update_delta()
        V.prove(V.eq(np.array([fb.variation_coef]), np.array([ref])), "fallback==reference-variance", info=info)
        mid = dmin + (dmax - dmin) / 2
        V.prove(_tolerant_eq(V, fb.delta, mid, dmax - dmin), "midpoint-at-reference", info=info)
        V.reach("done")
        return
    e1 = V.real("e1", lo=-1e4, hi=1e4)
    if case == "zero":
        e2 = e1
    elif case == "reference":
        e2 = e1 + 2 * n * ref  # std = |e1-e2|/2 = n*ref  ->  v = ref
    elif case == "large":
        e2 = e1 + 2 * n * ref * V.real("k", lo=60, hi=1e6)
    else:
        e2 = V.real("e2", lo=-1e4, hi=1e4)
    comm = np.array([e1, e2], dtype=object if V.mode == "sym" else float)
    atoms.calc = CommitteeCalc({"energies": comm})
    fb.update_delta()
    d = fb.delta
    if V.mode == "sym":
        V.prove(SB(_between(V, d, dmin, dmax)), "delta-in-range", info=info)
    else:
        V.prove(_between(V, d, dmin, dmax), "delta-in-range", info=info)
    if case == "zero":
        V.prove(_tolerant_eq(V, d, dmax, dmax - dmin, 0.0), "max-at-zero-variance", info=info)
    if case == "reference":
        V.prove(_tolerant_eq(V, d, dmin + (dmax - dmin) / 2, dmax - dmin), "midpoint-at-reference", info=info)
    if case == "large":
        V.prove(_tolerant_eq(V, d, dmin, dmax - dmin, 1e-11), "min-at-large-variance", info=info)
    if case == "general":
        # monotone: a second committee with larger spread never gives a larger delta
        extra = V.real("extra", lo=0, hi=1e4)
        spread = abs(e2 - e1) if V.mode != "sym" else SR(z3.If(lift(e2) - lift(e1) >= 0, lift(e2) - lift(e1), lift(e1) - lift(e2)))
        comm2 = np.array([e1, e1 + spread + extra], dtype=object if V.mode == "sym" else float)
        atoms.calc = CommitteeCalc({"energies": comm2})
        fb.update_delta()
        d2 = fb.delta
        V.prove(SB(lift(d2) <= lift(d)) if V.mode == "sym" else d2 <= d + 1e-12, "monotone-non-increasing", info=info)
    V.reach("done")


def _tolerant_eq(V, x, target, scale, rel=1e-12):
    """|x - target| <= rel*scale (anchors hold to rounding of atanh(0.5)/log(2))."""
    if V.mode == "sym":
        tol = lift(scale) * lift(rel)
        return SB(z3.And(lift(x) - lift(target) <= tol, lift(target) - lift(x) <= tol))
    return abs(x - target) <= rel * abs(scale) + 1e-12


def sc_forces(V, update="tanh", case="general"):
    """Forces scheme, 1 atom, committee of 2 members; coordinate x symbolic, y zero-spread, z fixed."""
    fb, atoms, dmin, dmax, ref = _mk(V, "forces", update)
    info = f"forces:{update}:{case}"
    if case == "nodata":
        atoms.calc = CommitteeCalc({})
        fb.update_delta()
        vc = np.asarray(fb.variation_coef, dtype=object if V.mode == "sym" else float)
        V.prove(vc.shape == (1, 3), "fallback-shape", info=info)
        V.prove(V.eq(vc, np.full((1, 3), ref, dtype=vc.dtype)), "fallback==reference-variance", info=info)
        V.reach("done")
        return
    a = V.real("fa", lo=0.01, hi=100)
    w = V.real("fw", lo=0, hi=0.009)  # half-spread below the mean so that mean|F| = a exactly
    comm = np.zeros((2, 1, 3), dtype=object if V.mode == "sym" else float)
    comm[0, 0, 0], comm[1, 0, 0] = a - w, a + w  # std = w, mean|F| = a  -> v = w/a
    comm[0, 0, 1], comm[1, 0, 1] = 2.0, 2.0  # zero variance
    comm[0, 0, 2], comm[1, 0, 2] = -1.0, -3.0  # std 1, mean 2 -> v = 0.5
    atoms.calc = CommitteeCalc({"forces_comm": comm})
    fb.update_delta()
    d = np.asarray(fb.delta, dtype=object if V.mode == "sym" else float)
    V.prove(d.shape == (1, 3), "per-coordinate-delta", info=info)
    if V.mode == "sym":
        V.prove(SB(z3.And(*[_between(V, d[0, k], dmin, dmax) for k in range(3)])), "delta-in-range", info=info)
    else:
        V.prove(all(_between(V, d[0, k], dmin, dmax) for k in range(3)), "delta-in-range", info=info)
    V.prove(_tolerant_eq(V, d[0, 1], dmax, dmax - dmin, 0.0), "max-at-zero-variance", info=info)
    # monotone in the spread of coordinate x
    w2 = w + V.real("dw", lo=0, hi=0.0009)
    comm2 = comm.copy()
    comm2[0, 0, 0], comm2[1, 0, 0] = a - w2, a + w2
    atoms.calc = CommitteeCalc({"forces_comm": comm2})
    fb.update_delta()
    d2 = np.asarray(fb.delta, dtype=object if V.mode == "sym" else float)
    V.prove(SB(lift(d2[0, 0]) <= lift(d[0, 0])) if V.mode == "sym" else d2[0, 0] <= d[0, 0] + 1e-12, "monotone-non-increasing", info=info)
    V.reach("done")


def sc_function(V, update="tanh"):
    """The update functions on a raw non-negative coefficient (scalar and array form)."""
    fb, atoms, dmin, dmax, ref = _mk(V, "forces", update)
    v1 = V.real("v1", lo=0, hi=1e6)
    dv = V.real("dv", lo=0, hi=1e6)
    f = fb.update_functions[update]
    y1, y2, y0, yr = f(v1), f(v1 + dv), f(0.0), f(ref)
    info = f"function:{update}"
    if V.mode == "sym":
        V.prove(SB(z3.And(lift(y1) >= 0, lift(y1) <= 1)), "factor-in-[0,1]", info=info)
        V.prove(SB(lift(y2) <= lift(y1)), "factor-monotone", info=info)
        V.prove(SB(lift(y0) == 1) if symx.is_sym(y0) else y0 == 1, "factor(0)==1", info=info)
        V.prove(SB(z3.And(lift(yr) >= lift(0.5 - 1e-12), lift(yr) <= lift(0.5 + 1e-12))), "factor(ref)==1/2", info=info)
    else:
        V.prove(-1e-15 <= y1 <= 1 + 1e-15, "factor-in-[0,1]")
        V.prove(y2 <= y1 + 1e-15, "factor-monotone")
        V.prove(y0 == 1, "factor(0)==1")
        V.prove(abs(yr - 0.5) <= 1e-12, "factor(ref)==1/2")
    V.reach("done")


SCENARIOS = {"energy": sc_energy, "forces": sc_forces, "function": sc_function}
replay = generic_replay(SCENARIOS)


def _plan(tier):
    plan = []
    for up in ("tanh", "exp"):
        plan.append(("function", dict(update=up), ("done",)))
        for case in ("general", "zero", "reference", "large", "nodata"):
            plan.append(("energy", dict(update=up, case=case), ("done",)))
        for case in ("reference", "nodata", "zero"):
            plan.append(("energy", dict(update=up, case=case, reassign=True), ("done",)))
        for case in ("general", "nodata"):
            plan.append(("forces", dict(update=up, case=case), ("done",)))
    plan.append(("energy", dict(update="tanh", case="reference"), (), "midpoint-at-reference"))
    return plan


def run(rep: Report):
    tier = rep.tier
    opts = {"prove_timeout_ms": 10000 if tier == "quick" else 60000, "fork_timeout_ms": 3000, "seed": rep.seed, "scenario_wall_s": 900 if tier == "quick" else 1800}
    run_plan(rep, _plan(tier), SCENARIOS, opts)
    rep.bounds = {"committee": "2 members x 1 atom (forces: one symbolic coordinate, one zero-spread, one fixed)", "min_delta": "(0,5]", "max_delta-min_delta": "[0,5]", "reference variance": "[1e-6,100]"}
    rep.assumptions = ["tanh/exp uninterpreted with true axioms (range, oddness, monotone, values at constant arguments within 1e-13, limits beyond 20 / -27)", "sqrt in np.std as non-negative root", "floats as exact reals; anchors proved to 1e-12 relative"]
    rep.stubs = ["CommitteeCalc: calculator exposing committee results"]
    rep.outside = ["all-zero committee forces (0/0)", "committees of more than two members"]
