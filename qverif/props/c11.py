"""C11 -- a displacement move moves only the chosen particle.

The real DisplacementMove / CompositeDisplacementMove are called on a real DisplacementContext
with symbolic positions, every labeling of the atoms (negative, repeated, unsorted), optional
pre-selected targets, symbolic draws and a recording operation whose result is a fresh symbolic
array.  Positions of the selected label's atoms must change by exactly the operation's rows, all
other rows must be term-identical, the label must be non-negative, nothing changes on failure, and
a composite never repeats a particle and moves min(n, eligible) of them when nothing vetoes.
"""
from __future__ import annotations

import numpy as np

from .. import mcsim, shims, symx
from ..runner import Report, generic_replay, run_plan

ID = "C11"
LEVEL = "model_checking"


class RecOp:
    """Operation protocol object: returns a fresh (1,3) or (k,3) array and records every call."""

    def __init__(self, V, rowwise=False):
        self.V, self.rowwise = V, rowwise
        self.calls = []

    def calculate(self, context):
        k = len(context._moving_indices) if self.rowwise else 1
        i = len(self.calls)
        r = self.V.array(f"op{i}_", (k, 3))
        self.calls.append((list(int(x) for x in context._moving_indices), r))
        return r

    def to_dict(self):
        return {"name": "RecOp"}


def _ctx(V, atoms, rng):
    from quansino.mc.contexts import DisplacementContext

    return DisplacementContext(atoms, rng)


def _check_single(V, move, op, labels, pos0, atoms, ok, info, vetoes_possible):
    pos1 = np.asarray(atoms.positions, dtype=object if V.mode == "sym" else float)
    n = len(labels)
    if not ok:
        V.prove(mcsim.same(V, pos1, pos0), "failure-changes-nothing", info=info)
        V.prove(move.displaced_labels is None and move.to_displace_labels is None, "failure-clears-selection", info=info)
        return None
    L = move.displaced_labels
    V.prove(L is not None and int(L) >= 0, "selected-label-non-negative", info=info + f":L={L}")
    if L is None:
        return None
    L = int(L)
    idx = [i for i in range(n) if int(labels[i]) == L]
    V.prove(len(idx) > 0, "selected-label-exists", info=info)
    if not op.calls:
        V.fail("operation-called", info=info)
        return L
    moved_idx, res = op.calls[-1]
    V.prove(sorted(moved_idx) == idx, "operation-asked-about-the-selected-atoms", info=info + f":{moved_idx}!={idx}")
    res = np.asarray(res, dtype=pos1.dtype)
    good = True
    for i in range(n):
        if i in idx:
            row = res[idx.index(i)] if res.shape[0] > 1 else res[0]
            exp = pos0[i] + row
            if V.mode == "sym":
                good = good and bool(V.prove(V.eq(pos1[i], exp), "selected-atoms-move-by-the-operation-result", info=info + f":atom={i}"))
            else:
                V.prove(V.eq(pos1[i], exp, tol=1e-12), "selected-atoms-move-by-the-operation-result", info=info + f":atom={i}")
        else:
            V.prove(mcsim.same(V, pos1[i], pos0[i]), "other-atoms-untouched", info=info + f":atom={i}")
    return L


def sc_single(V, n=3, preselect=False, check=False, rowwise=False, hi=2):
    from quansino.moves.displacement import DisplacementMove

    info = f"single:n={n}:pre={preselect}:check={check}:rowwise={rowwise}"
    atoms = mcsim.make_atoms(V, n, extras=False)
    labels = mcsim.labels_for(V, n, -1, hi)
    rng = mcsim.make_rng(V)
    ctx = _ctx(V, atoms, rng)
    op = RecOp(V, rowwise)
    move = DisplacementMove(labels.copy(), op)
    if check:
        move.max_attempts = 2
        move.check_move = mcsim.symbolic_check(V, "d")
    elig = sorted({int(x) for x in labels if x >= 0})
    if preselect and elig:
        move.to_displace_labels = elig[V.choice("pre", len(elig))]
    pos0 = np.asarray(atoms.positions, dtype=object if V.mode == "sym" else float).copy()
    ok = bool(move(ctx))
    V.reach("moved" if ok else "failed")
    if not elig:
        V.prove(not ok, "no-eligible-particle-reports-failure", info=info)
    elif not check:
        V.prove(ok, "eligible-particle-is-moved", info=info)
    _check_single(V, move, op, labels, pos0, atoms, ok, info, check)


class SpyOp:
    """Wraps a SHIPPED operation: the real calculate() runs (with whatever side effects it has); its result and the
    atoms it was asked about are recorded."""

    def __init__(self, real):
        self.real = real
        self.calls = []

    def calculate(self, context):
        r = self.real.calculate(context)
        self.calls.append((list(int(x) for x in context._moving_indices), np.array(r, dtype=object if symx.is_sym(np.asarray(r, dtype=object).ravel()[0]) or np.asarray(r).dtype == object else float).copy()))
        return r

    def to_dict(self):
        return self.real.to_dict()


def _shipped(which):
    from quansino.operations.displacement import Ball, Box, Rotation, Sphere, Translation, TranslationRotation

    return {"Box": lambda: Box(0.3), "Ball": lambda: Ball(0.3), "Sphere": lambda: Sphere(0.3), "Translation": Translation, "Rotation": Rotation, "TranslationRotation": TranslationRotation, "Rotation+Translation": lambda: Rotation() + Translation(), "Box+Translation": lambda: Box(0.2) + Translation()}[which]()


def sc_shipped(V, which="Translation", n=3, molecular=True):
    """The shipped operations inside a DisplacementMove on a periodic triclinic cell with atoms anywhere in space
    (also outside the unit cell): what the operation does to the atoms as a side effect counts as well."""
    from quansino.moves.displacement import DisplacementMove

    info = f"shipped:{which}:n={n}:mol={molecular}"
    atoms = mcsim.make_atoms(V, n, extras=False)
    labels = np.array(([0, 0] + list(range(1, n - 1)))[:n] if molecular else list(range(n)))
    labels[-1] = -1  # one atom that must never be displaced
    rng = mcsim.make_rng(V)
    ctx = _ctx(V, atoms, rng)
    if V.mode == "sym" and "Rotation" in which:
        from . import c10

        E_ = symx.E()
        E_.pi()
        shims.SymAtoms.euler_rotate = c10._sym_euler_rotate
    op = SpyOp(_shipped(which))
    move = DisplacementMove(labels.copy(), op)
    pos0 = np.asarray(atoms.positions, dtype=object if V.mode == "sym" else float).copy()
    try:
        ok = bool(move(ctx))
    except (symx.PathAbort, symx.BoundHit, symx.Unsupported, symx.ReplayMismatch):
        raise
    except Exception as ex:  # noqa: BLE001
        V.fail("eligible-particle-is-moved", info=info + ":" + type(ex).__name__ + ":" + str(ex)[:60])
        return
    V.reach("moved" if ok else "failed")
    V.prove(ok, "eligible-particle-is-moved", info=info)
    if not ok:
        return
    L = int(move.displaced_labels)
    idx = [i for i in range(n) if int(labels[i]) == L]
    pos1 = np.asarray(atoms.positions, dtype=object if V.mode == "sym" else float)
    moved_idx, res = op.calls[-1]
    V.prove(sorted(moved_idx) == idx, "operation-asked-about-the-selected-atoms", info=info)
    res = np.asarray(res, dtype=pos1.dtype)
    res = res.reshape(-1, 3)
    for i in range(n):
        if i in idx:
            row = res[idx.index(i)] if res.shape[0] > 1 else res[0]
            V.prove(V.eq(pos1[i], pos0[i] + row, tol=1e-9), "selected-atoms-move-by-the-operation-result", info=info + f":atom={i}")
        else:
            V.prove(mcsim.same(V, pos1[i], pos0[i]), "other-atoms-untouched", info=info + f":atom={i}:label={int(labels[i])}")


def sc_composite(V, n=3, k=2, same_object=False, preselect=False, check=False, hi=2):
    from quansino.moves.displacement import DisplacementMove

    info = f"composite:n={n}:k={k}:same={same_object}:pre={preselect}:check={check}"
    atoms = mcsim.make_atoms(V, n, extras=False)
    labels = mcsim.labels_for(V, n, -1, hi)
    rng = mcsim.make_rng(V)
    ctx = _ctx(V, atoms, rng)
    ops = []

    def mk(tag):
        op = RecOp(V)
        ops.append(op)
        m = DisplacementMove(labels.copy(), op)
        if check:
            m.max_attempts = 1
            m.check_move = mcsim.symbolic_check(V, tag)
        return m

    if same_object:
        comp = mk("d") * k
    else:
        comp = mk("d0")
        for j in range(1, k):
            comp = comp + mk(f"d{j}")
    elig = sorted({int(x) for x in labels if x >= 0})
    if preselect and elig:
        # the user may pre-select targets on the elementary moves (also the same one twice)
        seen = []
        for j, m in enumerate(comp.moves):
            if any(m is s for s in seen):
                continue
            seen.append(m)
            c = V.choice(f"pre{j}", len(elig) + 1)
            if c < len(elig):
                m.to_displace_labels = elig[c]
    pos0 = np.asarray(atoms.positions, dtype=object if V.mode == "sym" else float).copy()
    ok = bool(comp(ctx))
    V.reach("moved" if ok else "failed")
    dl = list(comp.displaced_labels)
    moved = [int(x) for x in dl if x is not None]
    V.prove(len(dl) == k, "one-entry-per-element", info=info + f":{dl}")
    V.prove(len(set(moved)) == len(moved), "no-particle-displaced-twice", info=info + f":{moved}")
    V.prove(all(x >= 0 for x in moved), "selected-labels-non-negative", info=info)
    V.prove(comp.number_of_moved_particles == len(moved), "reports-how-many-it-moved", info=info)
    V.prove(ok == (len(moved) > 0), "success-iff-something-moved", info=info)
    if not check:
        V.prove(len(moved) == min(k, len(elig)), "moves-min(n,eligible)-particles", info=info + f":{len(moved)}!=min({k},{len(elig)})")
    # geometry: every atom of a moved label shifted by the sum of the operation results addressed to
    # it (once per particle), every other atom untouched
    pos1 = np.asarray(atoms.positions, dtype=object if V.mode == "sym" else float)
    total = {}
    for op in ops:
        for idxs, res in op.calls:
            for i in idxs:
                total.setdefault(i, []).append(np.asarray(res)[0])
    for i in range(n):
        if int(labels[i]) in moved:
            rows = total.get(i, [])
            if check:
                continue  # vetoed attempts also call the operation; geometry is judged in the un-vetoed runs
            V.prove(len(rows) == 1, "each-moved-atom-displaced-once", info=info + f":atom={i}:times={len(rows)}")
            if len(rows) == 1:
                V.prove(V.eq(pos1[i], pos0[i] + rows[0], tol=1e-12), "selected-atoms-move-by-the-operation-result", info=info + f":atom={i}")
        else:
            V.prove(mcsim.same(V, pos1[i], pos0[i]), "other-atoms-untouched", info=info + f":atom={i}")


def sc_after_notification(V, n=3, default=-1, composite=False):
    """The move was notified of atoms added (and of atoms removed) before it is called: do-not-touch
    labels given to new atoms must stay untouchable, surviving atoms keep their meaning."""
    from quansino.moves.displacement import DisplacementMove

    info = f"after-notification:n={n}:default={default}:composite={composite}"
    labels = mcsim.labels_for(V, n, -1, 1)
    atoms = mcsim.make_atoms(V, n + 1, extras=False)  # one atom more than the move knows about
    rng = mcsim.make_rng(V)
    ctx = _ctx(V, atoms, rng)
    op = RecOp(V)
    move = DisplacementMove(labels.copy(), op)
    move.default_label = default
    move.on_atoms_changed([n], [])
    full = np.array(list(labels) + [default if default is not None else (max([int(x) for x in labels if x >= 0], default=-1) + 1)])
    V.prove(len(move.labels) == n + 1 and int(move.labels[-1]) == int(full[-1]), "new-atom-gets-the-configured-label", info=info)
    target = move * 2 if composite else move
    pos0 = np.asarray(atoms.positions, dtype=object if V.mode == "sym" else float).copy()
    ok = bool(target(ctx))
    V.reach("moved" if ok else "failed")
    pos1 = np.asarray(atoms.positions, dtype=object if V.mode == "sym" else float)
    dl = list(target.displaced_labels) if composite else [move.displaced_labels]
    moved = [int(x) for x in dl if x is not None]
    V.prove(all(x >= 0 for x in moved), "selected-label-non-negative", info=info + f":{moved}")
    for i in range(n + 1):
        if int(full[i]) < 0:
            V.prove(mcsim.same(V, pos1[i], pos0[i]), "negative-label-atoms-never-displaced", info=info + f":atom={i}")
    elig = sorted({int(x) for x in full if x >= 0})
    if not elig:
        V.prove(not ok, "no-eligible-particle-reports-failure", info=info)
    if composite:
        V.prove(target.number_of_moved_particles == min(2, len(elig)), "moves-min(n,eligible)-particles", info=info + f":{target.number_of_moved_particles}!=min(2,{len(elig)})")


SCENARIOS = {"single": sc_single, "composite": sc_composite, "after_notification": sc_after_notification, "shipped": sc_shipped}
replay = generic_replay(SCENARIOS)


def _plan(tier):
    q = tier == "quick"
    n = 3 if q else 4
    R = ("moved", "failed")
    P = [
        ("single", dict(n=n, preselect=False, check=False, rowwise=False), R),
        ("single", dict(n=3, preselect=True, check=True, rowwise=True), R),
        ("composite", dict(n=n, k=2, same_object=False, preselect=False, check=False), R),
        ("composite", dict(n=3, k=2, same_object=True, preselect=False, check=True), R),
        ("composite", dict(n=3, k=2, same_object=False, preselect=True, check=False), R),
        ("composite", dict(n=3, k=3, same_object=True, preselect=False, check=False), R),
        ("after_notification", dict(n=2, default=-1, composite=False), R),
        ("after_notification", dict(n=2, default=-1, composite=True), R),
        ("after_notification", dict(n=2, default=0, composite=False), ("moved",)),
    ]
    for w in ("Box", "Ball", "Translation", "Rotation", "TranslationRotation", "Rotation+Translation") if q else ("Box", "Ball", "Sphere", "Translation", "Rotation", "TranslationRotation", "Rotation+Translation", "Box+Translation"):
        P.append(("shipped", dict(which=w, n=3, molecular=True), ("moved",)))
    if not q:
        P.append(("composite", dict(n=4, k=3, same_object=False, preselect=True, check=False), R))
        P.append(("composite", dict(n=4, k=3, same_object=False, preselect=False, check=True), R))
        P.append(("single", dict(n=4, preselect=True, check=True, rowwise=False), R))
    P.append(("single", dict(n=3, preselect=False, check=False, rowwise=False), (), "other-atoms-untouched"))
    return P


def run(rep: Report):
    tier = rep.tier
    opts = {"prove_timeout_ms": 10000, "fork_timeout_ms": 2000, "seed": rep.seed, "scenario_wall_s": 900 if tier == "quick" else 1500}
    run_plan(rep, _plan(tier), SCENARIOS, opts)
    rep.bounds = {"atoms": "3 (quick) / 4 (thorough)", "labels": "every labeling in [-1,2]^n", "composite size": "2-3 (distinct objects with + and one object repeated with *)", "user check": "every verdict sequence (max_attempts 1-2)"}
    rep.assumptions = ["the operation is any object with calculate(): its result is a fresh symbolic (1,3) or (k,3) array", "no constraints on the atoms (constraints are C12's subject)"]
    rep.stubs = ["RecOp recording operation", "SymAtoms, SymRNG, symbolic check verdicts"]
    rep.outside = ["composites longer than 3", "more than 4 atoms"]
    rep.extra["explanation"] = "bounded model checking of single and composite displacement calls over all labelings, targets and verdict sequences"
