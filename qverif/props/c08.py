"""C08 -- every shipped component survives serialization with its full configuration.

Every concrete serializable class found by introspection of quansino.moves / operations /
integrators / mc.criteria / utils.moves is instantiated with every constructor parameter and
documented tunable set to a NON-DEFAULT value (numeric ones symbolic), converted with to_dict,
written and read back with the real ase JSON codec (symbols travel as sentinel doubles), rebuilt by
its registered name, and compared parameter by parameter; serializing again must give the same
dictionary.  Simulation-level settings go through the real MonteCarlo.to_dict/from_dict of every
driver.  The import-entry clause is decided by enumeration: every public module is imported first
in a fresh interpreter (finite domain; the solver adds nothing there and we say so).
"""
from __future__ import annotations

import importlib
import inspect
import io
import json
import os
import pkgutil
import struct
import subprocess
import sys

import numpy as np
import z3

from .. import mcsim, shims, symx
from ..runner import PY, Report, generic_replay, run_plan
from ..symx import E, SB, SI, SR, lift

ID = "C08"
LEVEL = "translation_validation"

PACKAGES = ("quansino.moves", "quansino.operations", "quansino.integrators", "quansino.mc.criteria", "quansino.utils.moves")
TUNABLES = {"max_attempts": 17, "default_label": 0, "bias_towards_insert": None, "apply_constraints": None, "scale_atoms": None}


# ------------------------------------------------------------------ JSON with sentinels
class Sentinels:
    def __init__(self):
        self.fwd = {}
        self.back = {}

    def enc(self, x):
        key = x.e.get_id()
        if key not in self.fwd:
            k = len(self.fwd) + 1
            v = struct.unpack("d", struct.pack("Q", 0x4055000000000000 + k * 0x9E3779B97F4A7))[0]
            if isinstance(x, SI):
                v = 7_000_003 + 1009 * k
            self.fwd[key] = v
            self.back[v] = x
        return self.fwd[key]

    def dec(self, o):
        if isinstance(o, (float, int, np.floating, np.integer)) and not isinstance(o, bool):
            hit = self.back.get(float(o) if isinstance(o, (float, np.floating)) else int(o))
            return hit if hit is not None else o
        if isinstance(o, dict):
            return {k: self.dec(v) for k, v in o.items()}
        if isinstance(o, list):
            return [self.dec(v) for v in o]
        if isinstance(o, np.ndarray):
            if o.dtype.kind in "fi" and o.size and any((float(t) if o.dtype.kind == "f" else int(t)) in self.back for t in o.ravel().tolist()):
                f = np.frompyfunc(self.dec, 1, 1)
                return f(o.astype(object))
            return o
        try:
            from ase import Atoms

            if isinstance(o, Atoms):
                for k, v in list(o.arrays.items()):
                    o.arrays[k] = self.dec(v)
        except Exception:
            pass
        return o


def json_roundtrip(V, d):
    """The real ase JSON writer/reader on a real text stream."""
    import ase.io.jsonio as J

    if V.mode != "sym":
        buf = io.StringIO()
        J.write_json(buf, d)
        buf.seek(0)
        return J.read_json(buf)
    sent = Sentinels()
    orig = J.MyEncoder.default

    def default(self, obj):
        if isinstance(obj, (SR, SI)):
            return sent.enc(obj)
        if isinstance(obj, np.ndarray) and obj.dtype == object:
            flat = [sent.enc(x) if isinstance(x, (SR, SI)) else x for x in obj.ravel().tolist()]
            return orig(self, np.array(flat, dtype=float).reshape(obj.shape))
        return orig(self, obj)

    J.MyEncoder.default = default
    try:
        buf = io.StringIO()
        J.write_json(buf, d)
        buf.seek(0)
        out = J.read_json(buf)
    finally:
        J.MyEncoder.default = orig
    return sent.dec(out)


# ------------------------------------------------------------------ discovery and construction
def discover():
    import quansino.mc  # noqa: F401  (the import order the tests use)

    found = {}
    for pk in PACKAGES:
        mod = importlib.import_module(pk)
        mods = [mod]
        if hasattr(mod, "__path__"):
            for mi in pkgutil.iter_modules(mod.__path__, pk + "."):
                mods.append(importlib.import_module(mi.name))
        for m in mods:
            for name, cls in vars(m).items():
                if not inspect.isclass(cls) or cls.__module__ != m.__name__:
                    continue
                if not (hasattr(cls, "to_dict") and hasattr(cls, "from_dict")):
                    continue
                if inspect.isabstract(cls) or getattr(cls, "_is_protocol", False):
                    continue
                found[name] = cls
    return found


ABSTRACT_BASES = {"BaseMove", "BaseOperation", "BaseIntegrator", "DisplacementOperation", "DeformationOperation"}


def _num(V, name, lo, hi):
    return V.real(name, lo=lo, hi=hi)


def make_param(V, cls, pname, depth, tag):
    from quansino.operations.cell import ShapeDeformation
    from quansino.operations.displacement import Ball, Box

    if pname == "labels":
        return np.array([2, -1, 0, 2])
    if pname == "operation":
        nm = cls.__name__
        if "Hamiltonian" in nm:
            from quansino.integrators.displacement import Verlet

            return Verlet(dt=_num(V, f"{tag}_dt", 0.1, 5), max_steps=7, apply_constraints=False)
        if "Cell" in nm:
            m = np.ones((3, 3), dtype=bool)
            m[0, 1] = m[1, 0] = False
            return ShapeDeformation(_num(V, f"{tag}_maxv", 0.001, 0.5), mask=m)
        return Ball(_num(V, f"{tag}_step", 0.01, 2))
    if pname == "step_size":
        return _num(V, f"{tag}_step", 0, 2)
    if pname == "max_value":
        return _num(V, f"{tag}_maxv", 0, 0.5)
    if pname == "mask":
        m = np.ones((3, 3), dtype=bool)
        m[2, 2] = False
        m[0, 2] = m[2, 0] = False
        return m
    if pname in ("scale_atoms", "apply_constraints"):
        return False
    if pname == "dt":
        return _num(V, f"{tag}_dt", 0.1, 5)
    if pname == "max_steps":
        return 7
    if pname == "bias_towards_insert":
        return _num(V, f"{tag}_bias", 0, 1)
    if pname == "moves":
        from quansino.moves.displacement import DisplacementMove
        from quansino.moves.exchange import ExchangeMove

        nm = cls.__name__
        if "Exchange" in nm:
            a = build(V, ExchangeMove, depth + 1, tag + "a")
            return [a, build(V, ExchangeMove, depth + 1, tag + "b")]
        if "Displacement" in nm:
            a = build(V, DisplacementMove, depth + 1, tag + "a")
            return [a, a]
        from quansino.moves.cell import CellMove

        return [build(V, DisplacementMove, depth + 1, tag + "a"), build(V, CellMove, depth + 1, tag + "b")]
    if pname == "operations":
        from quansino.operations.displacement import Translation

        return [Box(_num(V, f"{tag}_ob", 0.01, 2)), Translation(), Ball(_num(V, f"{tag}_oc", 0.01, 2))]
    if pname == "move":
        from quansino.moves.cell import CellMove

        return build(V, CellMove, depth + 1, tag + "m")
    if pname == "criteria":
        from quansino.mc.criteria import IsobaricCriteria

        return IsobaricCriteria()
    # scheduling fields over their whole legal range, the falsy ends included (probability 0 = forced-only move)
    if pname == "interval":
        return V.int(f"{tag}_interval", 1, 9)
    if pname == "probability":
        return _num(V, f"{tag}_prob", 0, 1)
    if pname == "minimum_count":
        return V.int(f"{tag}_mincount", 0, 3)
    return None


def build(V, cls, depth=0, tag="x"):
    sig = inspect.signature(cls.__init__)
    kwargs = {}
    for pname, p in list(sig.parameters.items())[1:]:
        if p.kind in (p.VAR_POSITIONAL, p.VAR_KEYWORD):
            continue
        v = make_param(V, cls, pname, depth, tag)
        if v is None:
            if p.default is inspect._empty:
                raise symx.Unsupported(f"cannot construct {cls.__name__}: unknown required parameter {pname}")
            continue
        kwargs[pname] = v
    obj = cls(**kwargs)
    for t, val in TUNABLES.items():
        if val is not None and hasattr(obj, t) and t not in kwargs:
            try:
                if t == "max_attempts":
                    val = V.int(f"{tag}_maxatt", 1, 100000)  # symbolic: any value, incl. other classes' defaults
                elif t == "default_label":
                    val = V.int(f"{tag}_deflab", -2, 50)
                setattr(obj, t, val)
            except AttributeError:
                pass
    if hasattr(obj, "bias_towards_insert") and "bias_towards_insert" not in kwargs:
        obj.bias_towards_insert = _num(V, f"{tag}_cbias", 0, 1)
    return obj


def params_of(obj):
    """(name, value) of every constructor parameter and documented tunable the object exposes."""
    out = {}
    sig = inspect.signature(type(obj).__init__)
    names = [n for n, p in list(sig.parameters.items())[1:] if p.kind not in (p.VAR_POSITIONAL, p.VAR_KEYWORD)]
    for n in names + list(TUNABLES):
        if hasattr(obj, n):
            v = getattr(obj, n)
            if callable(v) and not hasattr(v, "to_dict"):
                continue
            out[n] = v
    return out


def equal_value(V, a, b, path, diffs):
    if isinstance(a, dict):
        dict_equal(V, a, b, path, diffs)
        return
    if hasattr(a, "to_dict") and not isinstance(a, (dict, np.ndarray)):
        if type(a) is not type(b):
            diffs.append(f"{path}: type {type(a).__name__} -> {type(b).__name__}")
            return
        pa, pb = params_of(a), params_of(b)
        for k in pa:
            if k not in pb:
                diffs.append(f"{path}.{k}: missing")
            else:
                equal_value(V, pa[k], pb[k], f"{path}.{k}", diffs)
        return
    if isinstance(a, (list, tuple)):
        if not isinstance(b, (list, tuple)) or len(a) != len(b):
            diffs.append(f"{path}: length")
            return
        for i, (x, y) in enumerate(zip(a, b)):
            equal_value(V, x, y, f"{path}[{i}]", diffs)
        return
    if isinstance(a, np.ndarray) or isinstance(b, np.ndarray):
        aa, bb = np.asarray(a), np.asarray(b)
        if aa.shape != bb.shape:
            diffs.append(f"{path}: shape {aa.shape} -> {bb.shape}")
            return
        for x, y in zip(aa.ravel().tolist(), bb.ravel().tolist()):
            equal_value(V, x, y, path, diffs)
        return
    if symx.is_sym(a) or symx.is_sym(b):
        if not (symx.is_sym(a) and symx.is_sym(b) and symx.same_term(a, b)):
            if any(not d.startswith("~") for d in diffs):
                # a difference is already established: no further solver work (and witnesses) for the rest
                diffs.append(f"~{path}: not compared")
                return
            try:
                ok = V.prove(SB(lift(a) == lift(b)), "parameter-preserved", info=path)
            except TypeError:
                ok = False
            if not ok:
                diffs.append(f"{path}: {a!r} -> {b!r}")
        return
    if isinstance(a, float) and isinstance(b, (float, int)):
        if abs(a - b) > 1e-12 * max(1.0, abs(a)):
            diffs.append(f"{path}: {a!r} -> {b!r}")
        return
    if a != b or type(a) is not type(b) and not (isinstance(a, (int, np.integer)) and isinstance(b, (int, np.integer))):
        diffs.append(f"{path}: {a!r} -> {b!r}")


def dict_equal(V, a, b, path, diffs):
    if isinstance(a, dict):
        if not isinstance(b, dict) or set(a) != set(b):
            diffs.append(f"{path}: keys {sorted(a) if isinstance(a, dict) else a} -> {sorted(b) if isinstance(b, dict) else b}")
            return
        for k in a:
            dict_equal(V, a[k], b[k], f"{path}.{k}", diffs)
        return
    equal_value(V, a, b, path, diffs)


def sc_component(V, name="Ball"):
    from quansino.registry import get_class

    classes = discover()
    cls = classes[name]
    info = f"class={name}"
    x = build(V, cls, 0, name[:3].lower())
    try:
        d = x.to_dict()
        d2 = json_roundtrip(V, d)
    except Exception as ex:  # noqa: BLE001
        V.fail("to_dict-and-json", info=info + ":" + type(ex).__name__ + ":" + str(ex)[:60])
        return
    try:
        rcls = get_class(d2["name"])
    except KeyError:
        V.fail("registered-by-name", info=info + f":{d2.get('name')}")
        return
    V.prove(rcls is cls, "registered-name-gives-the-same-class", info=info + f":{rcls.__name__}")
    try:
        y = rcls.from_dict(d2)
    except Exception as ex:  # noqa: BLE001
        V.fail("from_dict-rebuilds", info=info + ":" + type(ex).__name__ + ":" + str(ex)[:60])
        return
    V.prove(type(y) is cls, "same-type", info=info)
    diffs = []
    equal_value(V, x, y, name, diffs)
    V.prove(not diffs, "every-parameter-and-tunable-preserved", info=info + ":" + "; ".join(diffs[:4]))
    try:
        d3 = y.to_dict()
        dd = []
        dict_equal(V, d, d3, "dict", dd)
        V.prove(not dd, "serializing-again-gives-identical-dictionary", info=info + ":" + "; ".join(dd[:3]))
    except Exception as ex:  # noqa: BLE001
        V.fail("serializing-again-gives-identical-dictionary", info=info + ":" + type(ex).__name__)
    V.reach("done")


DRIVER_SETTINGS = {
    "Canonical": ["temperature", "max_cycles"],
    "HamiltonianCanonical": ["temperature", "max_cycles"],
    "Isobaric": ["temperature", "pressure", "max_cycles"],
    "Isotension": ["temperature", "pressure", "external_stress", "max_cycles"],
    "GrandCanonical": ["temperature", "chemical_potential", "number_of_exchange_particles", "accessible_volume", "exchange_atoms", "max_cycles"],
}


def sc_simulation(V, driver="Canonical"):
    """Simulation-level settings through the real to_dict -> JSON -> registered class -> from_dict."""
    from quansino.registry import get_class

    info = f"driver={driver}"
    atoms = mcsim.make_atoms(V, 2, momenta=(driver == "HamiltonianCanonical"), extras=False)
    T = V.real("T", lo=1, hi=5000)
    if driver in ("Canonical", "HamiltonianCanonical"):
        cls = importlib.import_module("quansino.mc.canonical").__dict__[driver]
        mc = cls(atoms, temperature=T, max_cycles=3, seed=12345)
    elif driver == "Isobaric":
        from quansino.mc.isobaric import Isobaric

        mc = Isobaric(atoms, temperature=T, pressure=V.real("P", lo=-1, hi=1), max_cycles=3, seed=12345)
    elif driver == "Isotension":
        from quansino.mc.isotension import Isotension

        mc = Isotension(atoms, temperature=T, pressure=V.real("P", lo=-1, hi=1), external_stress=V.array("S", (3, 3)), max_cycles=3, seed=12345)
    else:
        from quansino.mc.gcmc import GrandCanonical

        mc = GrandCanonical(atoms, exchange_atoms=mcsim.exchange_species(V, 1), temperature=T, chemical_potential=V.real("mu", lo=-5, hi=5), number_of_exchange_particles=4, max_cycles=3, seed=12345)
        mc.accessible_volume = V.real("Vacc", lo=1, hi=1000)
    mc.step_count = 9
    if V.mode != "sym":
        mc._rng.random(5)  # advance the generator so that its state is not the freshly seeded one
    try:
        d = mc.to_dict()
        d2 = json_roundtrip(V, d)
        rcls = get_class(d2["name"])
        mc2 = rcls.from_dict(d2)
    except Exception as ex:  # noqa: BLE001
        V.fail("simulation-rebuilds-by-registered-name", info=info + ":" + type(ex).__name__ + ":" + str(ex)[:80])
        return
    V.prove(type(mc2) is type(mc), "same-type", info=info)
    diffs = []
    for s in DRIVER_SETTINGS[driver]:
        a, b = getattr(mc, s), getattr(mc2, s)
        if s == "exchange_atoms":
            if len(a) != len(b) or list(a.numbers) != list(b.numbers):
                diffs.append("exchange_atoms")
            else:
                equal_value(V, np.asarray(a.arrays["positions"]), np.asarray(b.arrays["positions"]), "exchange_atoms.positions", diffs)
            continue
        equal_value(V, a, b, s, diffs)
    equal_value(V, mc._seed, mc2._seed, "seed", diffs)
    equal_value(V, mc.step_count, mc2.step_count, "step_count", diffs)
    if V.mode != "sym":
        if mc._rng.bit_generator.state != mc2._rng.bit_generator.state:
            diffs.append("generator state")
    V.prove(not diffs, "simulation-settings-preserved", info=info + ":" + "; ".join(diffs[:4]))
    V.reach("done")


def public_modules():
    import quansino

    out = ["quansino"]
    for mi in pkgutil.walk_packages(quansino.__path__, "quansino."):
        out.append(mi.name)
    return sorted(out)


def sc_import_entry(V, module="quansino.moves"):
    """Fresh interpreter: import `module` FIRST, then the rest; every registered component must resolve."""
    src = os.environ.get("QVERIF_SRC")
    env = dict(os.environ)
    env["PYTHONWARNINGS"] = "ignore"
    names = sorted(n for n in discover() if n not in ABSTRACT_BASES) + list(DRIVER_SETTINGS)
    # the user imports `module` first and then only what rebuilding a simulation needs (quansino.mc, the
    # home of the drivers and of from_dict): every shipped serializable class must be registered by then
    code = (
        "import importlib,sys\n"
        f"importlib.import_module({module!r})\n"
        "import quansino.mc\n"
        "from quansino.registry import get_class\n"
        f"missing=[n for n in {names!r} if not _ok(n)] if False else []\n"
        f"names={names!r}\n"
        "for n in names:\n"
        "    try: get_class(n)\n"
        "    except KeyError: missing.append(n)\n"
        "assert not missing, 'not registered: ' + ','.join(missing)\n"
        "print('ok')\n"
    )
    p = subprocess.run([PY if V.mode == "sym" else sys.executable, "-c", code], capture_output=True, text=True, env=env, timeout=120)
    ok = p.returncode == 0 and "ok" in p.stdout
    V.prove(ok, "importable-first-in-a-fresh-interpreter", info=f"entry={module}:" + (p.stderr.strip().splitlines()[-1][:100] if p.stderr.strip() else ""))
    V.reach("done")


SCENARIOS = {"component": sc_component, "simulation": sc_simulation, "import_entry": sc_import_entry}
replay = generic_replay(SCENARIOS)


def _plan(tier):
    P = []
    for name in sorted(discover()):
        if name in ABSTRACT_BASES:
            continue
        P.append(("component", dict(name=name), ("done",)))
    for d in DRIVER_SETTINGS:
        P.append(("simulation", dict(driver=d), ("done",)))
    for m in public_modules():
        P.append(("import_entry", dict(module=m), ("done",)))
    return P


def run(rep: Report):
    tier = rep.tier
    opts = {"prove_timeout_ms": 10000, "fork_timeout_ms": 2000, "seed": rep.seed, "scenario_wall_s": 900 if tier == "quick" else 900}
    run_plan(rep, _plan(tier), SCENARIOS, opts)
    rep.bounds = {"classes": sorted(n for n in discover() if n not in ABSTRACT_BASES), "nesting": "composites of depth <= 2", "entry modules": public_modules(), "drivers": list(DRIVER_SETTINGS)}
    rep.assumptions = ["numeric parameters symbolic, carried through the real JSON codec as sentinel doubles; booleans/masks/integers set to non-default concrete values", "documented tunables considered: " + ", ".join(TUNABLES), "abstract bases (no behaviour of their own) are not instantiated: " + ", ".join(sorted(ABSTRACT_BASES))]
    rep.stubs = ["sentinel hook in ase.io.jsonio.MyEncoder.default"]
    rep.outside = ["callables (distribution, check_move), as the statement excepts them", "the import-entry clause is an exhaustive enumeration in fresh interpreters, not a solver query"]
    rep.extra["explanation"] = "parameter-by-parameter validation of to_dict -> JSON -> registry -> from_dict for every discovered class with symbolic numeric parameters"
