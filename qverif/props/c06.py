"""C06 -- same seed, same trajectory.

(1) Seed plumbing: for a SYMBOLIC seed >= 0 every driver must keep exactly that seed and build its
generator from exactly that value (numpy's PCG64 / Generator are replaced by recording stubs), and
the context must share the driver's generator.  (2) Non-interference: one real step of each of the
seven drivers with its shipped moves runs on the symbolic own generator while every other entropy
source reachable from quansino code (numpy's global generator and unseeded generators, Python's
`random`, `time`, `os.urandom`) is monitored; no value from such a source may be consumed.
"""
from __future__ import annotations

import os
import random as _pyrandom
import sys
import time as _time

import numpy as np
import z3

from .. import mcsim, shims, symx
from ..runner import Report, generic_replay, run_plan
from ..symx import E, SB, SI, lift

ID = "C06"
LEVEL = "model_checking"

DRIVERS = ("Canonical", "Canonical+operations", "HamiltonianCanonical", "HamiltonianCanonical+forced", "Isobaric", "Isotension", "GrandCanonical", "GrandCanonical+composites", "ForceBias", "AdaptiveForceBias")


# ------------------------------------------------------------------ stubs for numpy's bit generator / generator
class StubPCG64:
    created = []

    def __init__(self, seed=None):
        self.seed = seed
        self.foreign = seed is None
        StubPCG64.created.append(self)
        self._state = {"bit_generator": "PCG64", "state": {"state": 0, "inc": 1}, "has_uint32": 0, "uinteger": 0}

    def random_raw(self):
        v = E().fresh("foreign_raw", "I")
        E().assume(v.e >= 0)
        return v

    @property
    def state(self):
        return self._state

    @state.setter
    def state(self, v):
        self._state = v


class StubGenerator(shims.SymRNG):
    created = []

    def __init__(self, bitgen=None):
        super().__init__("own")
        self.bit_generator_obj = bitgen
        self.bit_generator = bitgen
        StubGenerator.created.append(self)


def patch_extra():
    import numpy.random

    return [(numpy.random.PCG64, StubPCG64), (numpy.random.Generator, StubGenerator)]


# ------------------------------------------------------------------ foreign-entropy monitor
class Foreign:
    """Wraps the global entropy sources; a call made directly from quansino source is recorded."""

    def __init__(self, src_prefix):
        self.src = src_prefix
        self.hits = []
        self.saved = []

    def _wrap(self, owner, name):
        orig = getattr(owner, name, None)
        if orig is None or not callable(orig):
            return
        mon = self

        def wrapper(*a, **k):
            q = mon._quansino_frame()
            if q is not None:
                via = sys._getframe(1).f_code.co_filename
                mon.hits.append(f"{getattr(owner, '__name__', owner)}.{name} called from {q}" + ("" if via.startswith(mon.src) else f" (through {os.path.basename(via)})"))
            return orig(*a, **k)

        try:
            setattr(owner, name, wrapper)
            self.saved.append((owner, name, orig))
        except (AttributeError, TypeError):
            pass

    def _quansino_frame(self, depth=2, limit=25):
        """Innermost quansino frame on the stack of the caller: entropy drawn by a library function that quansino
        called (with that library's default generator) counts as well."""
        f = sys._getframe(depth)
        for _ in range(limit):
            if f is None:
                return None
            fn = f.f_code.co_filename
            if fn.startswith(self.src):
                return f"{fn[len(self.src):]}:{f.f_lineno}"
            if "/qverif/" in fn:
                return None  # the harness itself (below it nothing is quansino's doing)
            f = f.f_back
        return None

    def _wrap_ctor(self, owner, name):
        """Generator / bit-generator constructors: flagged when built UNSEEDED from quansino source."""
        orig = getattr(owner, name, None)
        if orig is None:
            return
        mon = self

        def wrapper(*a, **k):
            seed = a[0] if a else k.get("seed", k.get("entropy"))
            q = mon._quansino_frame() if seed is None else None
            if q is not None:
                mon.hits.append(f"unseeded {getattr(owner, '__name__', owner)}.{name}() built under {q}")
            return orig(*a, **k)

        try:
            setattr(owner, name, wrapper)
            self.saved.append((owner, name, orig))
        except (AttributeError, TypeError):
            pass

    def install(self):
        # (classes are left alone: numpy uses them in isinstance tests; unseeded PCG64()/Generator built
        # from quansino's own module globals are caught by the recording stubs of the seed scenario)
        for n in ("random", "rand", "randn", "uniform", "normal", "choice", "randint", "random_sample", "standard_normal", "shuffle", "permutation", "seed", "bytes", "integers"):
            self._wrap(np.random, n)
        self._wrap_ctor(np.random, "default_rng")
        for n in ("random", "uniform", "gauss", "choice", "randint", "randrange", "shuffle", "sample", "normalvariate", "seed", "getrandbits"):
            self._wrap(_pyrandom, n)
        for n in ("time", "time_ns", "perf_counter", "monotonic"):
            self._wrap(_time, n)
        self._wrap(os, "urandom")

    def remove(self):
        for owner, name, orig in reversed(self.saved):
            setattr(owner, name, orig)
        self.saved = []


def _src_prefix():
    import quansino

    return os.path.dirname(os.path.dirname(os.path.abspath(quansino.__file__))) + os.sep


class _ZeroForceCalc:
    def __init__(self):
        self.results = {"energy": 0.0}

    def get_forces(self, atoms=None):
        return np.zeros((len(atoms), 3))

    def get_potential_energy(self, atoms=None, force_consistent=False):
        return 0.0


class _ConcreteV:
    """Geometry is irrelevant to this property: positions are concrete, only draws/energies symbolic."""

    def __init__(self, V):
        self._V = V
        self.mode = V.mode

    def array(self, name, shape):
        rs = np.random.RandomState(abs(hash(name)) % 1000)
        return rs.uniform(0.5, 4.5, size=shape)

    def __getattr__(self, k):
        return getattr(self._V, k)


def _build(V, driver, seed):
    """Driver with its shipped moves, constructed with `seed` through the public constructor."""
    V = _ConcreteV(V)
    from quansino.moves.cell import CellMove
    from quansino.moves.displacement import DisplacementMove, HamiltonianDisplacementMove
    from quansino.moves.exchange import ExchangeMove

    n = 2
    if driver in ("ForceBias", "AdaptiveForceBias"):
        from ase.constraints import FixCom

        from quansino.mc.fbmc import AdaptiveForceBias, ForceBias

        atoms = mcsim.make_atoms(V, n, extras=False)
        atoms.set_constraint(FixCom())
        atoms.calc = _ZeroForceCalc()
        if driver == "ForceBias":
            sim = ForceBias(atoms, delta=0.05, temperature=300.0, seed=seed)
        else:
            sim = AdaptiveForceBias(atoms, min_delta=0.01, max_delta=0.1, temperature=300.0, seed=seed)
        return sim, atoms
    atoms = mcsim.make_atoms(V, n, momenta=driver.startswith("HamiltonianCanonical"), extras=False)
    pes = mcsim.PES(V)
    atoms.calc = mcsim.ModelCalc("caching", pes)
    lab = np.arange(n)
    from quansino.mc.canonical import Canonical, HamiltonianCanonical
    from quansino.mc.gcmc import GrandCanonical
    from quansino.mc.isobaric import Isobaric
    from quansino.mc.isotension import Isotension

    if driver == "Canonical+operations":
        # every shipped displacement operation in one table
        from quansino.mc.criteria import CanonicalCriteria
        from quansino.operations.displacement import Ball, Box, Rotation, Sphere, Translation, TranslationRotation

        from . import c10

        if V.mode == "sym":
            shims.SymAtoms.euler_rotate = c10._sym_euler_rotate
        sim = Canonical(atoms, temperature=300.0, max_cycles=1, seed=seed)
        sim.add_move(DisplacementMove(lab, Box(0.1) + Sphere(0.1)), name="box+sphere")
        sim.add_move(DisplacementMove(lab, Ball(0.2)), name="ball")
        sim.add_move(DisplacementMove(np.zeros(n, dtype=int), Rotation()), name="rotation")
        sim.add_move(DisplacementMove(np.zeros(n, dtype=int), TranslationRotation()), name="translation-rotation")
        sim.add_move(DisplacementMove(lab, Translation()), name="translation")
    elif driver == "Canonical":
        sim = Canonical(atoms, temperature=300.0, max_cycles=1, seed=seed, default_displacement_move=DisplacementMove(lab))
    elif driver == "HamiltonianCanonical":
        sim = HamiltonianCanonical(atoms, temperature=300.0, max_cycles=1, seed=seed)
        from quansino.integrators.displacement import Verlet

        sim.add_move(HamiltonianDisplacementMove(operation=Verlet(dt=1.0, max_steps=1)), name="h")
    elif driver == "HamiltonianCanonical+forced":
        # momenta rescaled to the exact temperature: the documented `forced=True` variant of the shipped distribution
        import functools

        from quansino.integrators.displacement import Verlet
        from quansino.utils.dynamics import maxwell_boltzmann_distribution

        sim = HamiltonianCanonical(atoms, temperature=300.0, max_cycles=1, seed=seed)
        sim.add_move(HamiltonianDisplacementMove(functools.partial(maxwell_boltzmann_distribution, forced=True), operation=Verlet(dt=1.0, max_steps=1)), name="h")
    elif driver == "Isobaric":
        sim = Isobaric(atoms, temperature=300.0, pressure=0.01, max_cycles=1, seed=seed, default_displacement_move=DisplacementMove(lab), default_cell_move=CellMove())
    elif driver == "Isotension":
        sim = Isotension(atoms, temperature=300.0, pressure=0.01, max_cycles=1, seed=seed, default_displacement_move=DisplacementMove(lab), default_cell_move=CellMove())
    elif driver == "GrandCanonical":
        sim = GrandCanonical(atoms, exchange_atoms=mcsim.exchange_species(V, 1), temperature=300.0, chemical_potential=-0.2, number_of_exchange_particles=n, max_cycles=1, seed=seed, default_displacement_move=DisplacementMove(lab), default_exchange_move=ExchangeMove(lab))
    else:  # grand canonical with composite moves (exchange * 2, displacement * 2)
        sim = GrandCanonical(atoms, exchange_atoms=mcsim.exchange_species(V, 1), temperature=300.0, chemical_potential=-0.2, number_of_exchange_particles=n, max_cycles=1, seed=seed)
        sim.add_move(ExchangeMove(lab) * 2, criteria=mcsim.CoinCriteria(), name="exch2")
        from quansino.mc.criteria import CanonicalCriteria

        sim.add_move(DisplacementMove(lab) * 2, criteria=CanonicalCriteria(), name="disp2")
    return sim, atoms


class _IntMeta(type):
    def __call__(cls, x=0, *a):
        if isinstance(x, SI) and not a:
            return x
        return int(x, *a)

    def __instancecheck__(cls, obj):
        return isinstance(obj, (int, SI))


class SymInt(int, metaclass=_IntMeta):
    """Stands in for the builtin `int` in the driver modules while a symbolic seed is passed through them:
    int(seed) keeps the symbol (a normalising int(...) is legitimate; what follows it is checked)."""


def _driver_modules():
    import sys

    return [m for n, m in sys.modules.items() if n.startswith("quansino.mc") and m is not None and "int" not in vars(m)]


# seeds straddling every machine-word width a careless conversion could clip to
WORD_SEEDS = (0, 1, 2**31 - 1, 2**31, 2**32 - 1, 2**32, 2**32 + 5, 2**53 + 1, 2**63 - 1, 2**63, 2**64 - 1, 2**64, 2**64 + 12345, 2**70 + 11, 2**128 + 3)


def sc_seed_words(V, driver="Canonical"):
    """The same clauses for concrete seeds at the machine-word boundaries (finite domain, solver-driven choice):
    they are all legal seeds, and conversions through fixed-width types fork by value and escape `sc_seed`."""
    seed = WORD_SEEDS[V.choice("which", len(WORD_SEEDS))]
    info = f"seed-words:{driver}:seed={seed}"
    if V.mode == "sym":
        StubPCG64.created.clear()
        StubGenerator.created.clear()
    try:
        sim, atoms = _build(V, driver, seed)
    except (symx.PathAbort, symx.BoundHit, symx.Unsupported, symx.ReplayMismatch):
        raise
    except Exception as ex:  # noqa: BLE001
        V.fail("seed-kept-as-given", info=info + ":constructor raised " + type(ex).__name__)
        return
    V.reach("built")
    kept = sim._seed
    V.prove(isinstance(kept, (int, np.integer)) and int(kept) == seed, "seed-kept-as-given", info=info + f":kept={kept}")
    if V.mode == "sym":
        seeded = [b for b in StubPCG64.created if not b.foreign]
        ok = bool(seeded) and isinstance(seeded[-1].seed, (int, np.integer)) and int(seeded[-1].seed) == seed
        V.prove(ok, "generator-seeded-with-the-given-seed", info=info + f":used={seeded[-1].seed if seeded else None}")
        V.prove(getattr(sim._rng, "bit_generator", None) is seeded[-1] if seeded else False, "generator-uses-that-bit-generator", info=info)
    else:
        from numpy.random import PCG64, Generator

        V.prove(sim._rng.bit_generator.state == Generator(PCG64(seed)).bit_generator.state, "generator-seeded-with-the-given-seed", info=info)
    d = sim.todict() if hasattr(sim, "todict") else {}
    rec = (d.get("kwargs") or {}).get("seed", d.get("seed"))
    if rec is not None:
        V.prove(int(rec) == seed, "seed-reported-as-given", info=info + f":reported={rec}")


def sc_seed(V, driver="Canonical"):
    """The seed the user passed is the seed that is kept and used (every seed >= 0, also 0)."""
    info = f"seed:{driver}"
    if V.mode == "sym":
        StubPCG64.created.clear()
        StubGenerator.created.clear()
        seed = V.int("seed", 0, None)
        mods = _driver_modules()
        for m in mods:
            m.int = SymInt
        try:
            sim, atoms = _build(V, driver, seed)
        finally:
            for m in mods:
                if vars(m).get("int") is SymInt:
                    del m.int
        V.reach("seed-zero" if bool(SB(seed.e == 0)) else "seed-positive")
        kept = sim._seed
        V.prove(SB(symx.ilift(kept) == seed.e) if isinstance(kept, (SI, int, np.integer)) else False, "seed-kept-as-given", info=info)
        seeded = [b for b in StubPCG64.created if not b.foreign]
        if len(seeded) >= 1 and isinstance(seeded[-1].seed, (SI, int, np.integer)):
            V.prove(SB(symx.ilift(seeded[-1].seed) == seed.e), "generator-seeded-with-the-given-seed", info=info)
        else:
            V.fail("generator-seeded-with-the-given-seed", info=info + ":no-seeded-bit-generator")
        V.prove(getattr(sim._rng, "bit_generator", None) is seeded[-1] if seeded else False, "generator-uses-that-bit-generator", info=info)
        if hasattr(sim, "context"):
            V.prove(sim.context.rng is sim._rng, "context-shares-the-generator", info=info)
        return
    seed = V.int("seed", 0, None)
    sim, atoms = _build(V, driver, seed)
    V.reach("seed-zero" if seed == 0 else "seed-positive")
    V.prove(sim._seed == seed, "seed-kept-as-given", info=info)
    from numpy.random import PCG64, Generator

    ref = Generator(PCG64(seed))
    V.prove(sim._rng.bit_generator.state == ref.bit_generator.state, "generator-seeded-with-the-given-seed", info=info)
    if hasattr(sim, "context"):
        V.prove(sim.context.rng is sim._rng, "context-shares-the-generator", info=info)


def sc_foreign(V, driver="Canonical"):
    """One real step consumes entropy from the simulation's own generator only."""
    info = f"foreign:{driver}"
    if V.mode == "sym":
        sim, atoms = _build(V, driver, 7)
        rng = mcsim.make_rng(V)
        sim._rng = rng
        if hasattr(sim, "context"):
            sim.context.rng = rng
        if driver in ("ForceBias", "AdaptiveForceBias"):
            E().no_axioms = ("exp",)
        mon = Foreign(_src_prefix())
        mon.install()
        try:
            if hasattr(sim, "validate_simulation"):
                sim.validate_simulation()
            if driver.startswith("HamiltonianCanonical"):
                sim.context.last_kinetic_energy = atoms.get_kinetic_energy()
            r = sim.step()
            if r is not None and hasattr(r, "__iter__") and not isinstance(r, np.ndarray):
                for _ in r:
                    pass
        finally:
            mon.remove()
        V.reach("stepped")
        V.prove(not mon.hits, "no-foreign-entropy-consumed", info=info + ":" + ";".join(mon.hits[:3]))
        V.prove(len(E().draws) > 0, "own-generator-used", info=info)
        return
    # replay (1): the monitor on the real, unpatched code -- any direct call into a foreign entropy
    # source from quansino source during real steps
    mon = Foreign(_src_prefix())
    Vm = symx.Replay({"symbols": dict(V.sym), "draws": []})
    simm, atomsm = _build(Vm, driver, 7)
    if not driver.endswith("ForceBias"):
        # a calculator without per-atom internal state (ase's neighbour-list calculators break after a
        # rejected exchange: C04's known finding, not this property's subject)
        atomsm.calc = mcsim.ModelCalc("stateless", mcsim.PES(Vm))
    mon.install()
    try:
        simm.run(25)
    finally:
        mon.remove()
    if mon.hits:
        V.prove(False, "no-foreign-entropy-consumed", info=info + ":" + mon.hits[0])
        return
    # replay (2): same seed, different states of the global generators -> identical trajectories
    outs = []
    for g in (1, 2):
        np.random.seed(g)
        _pyrandom.seed(g)
        Vr = symx.Replay({"symbols": dict(V.sym), "draws": []})
        sim, atoms = _build(Vr, driver, 7)
        if not driver.endswith("ForceBias"):
            atoms.calc = mcsim.ModelCalc("stateless", mcsim.PES(Vr))
        sim.run(12)
        outs.append((np.array(atoms.positions).copy(), np.array(atoms.cell.array).copy(), len(atoms)))
    same = outs[0][2] == outs[1][2] and np.array_equal(outs[0][0], outs[1][0]) and np.array_equal(outs[0][1], outs[1][1])
    V.prove(same, "no-foreign-entropy-consumed", info=info)


SCENARIOS = {"seed": sc_seed, "seed_words": sc_seed_words, "foreign": sc_foreign}
replay = generic_replay(SCENARIOS)


def _plan(tier):
    P = []
    for d in DRIVERS:
        P.append(("seed", dict(driver=d), ("seed-zero", "seed-positive")))
        P.append(("foreign", dict(driver=d), ("stepped",)))
    for d in ("Canonical", "GrandCanonical", "ForceBias") if tier == "quick" else DRIVERS:
        P.append(("seed_words", dict(driver=d), ("built",)))
    return P


def run(rep: Report):
    tier = rep.tier
    opts = {"prove_timeout_ms": 10000, "fork_timeout_ms": 700, "seed": rep.seed, "scenario_wall_s": 900 if tier == "quick" else 900}
    run_plan(rep, _plan(tier), SCENARIOS, opts)
    rep.bounds = {"seed": "symbolic integer >= 0 (unbounded); plus 15 concrete seeds at the 31/32/53/63/64/128-bit boundaries", "drivers": list(DRIVERS), "steps": "1 step (1 cycle) with the shipped default moves, 2 atoms"}
    rep.assumptions = ["numpy PCG64/Generator replaced by recording stubs (the bit-level stream is numpy's business)", "foreign entropy = numpy global generator functions, unseeded default_rng, Python random, time, os.urandom called directly from quansino source"]
    rep.stubs = ["StubPCG64, StubGenerator(SymRNG)", "Foreign call monitor"]
    rep.outside = ["'different seeds give different trajectories' and bit-identity of PCG64 streams (numpy internals: 128-bit LCG and float conversion, not quansino code)", "log-file text equality (follows from state equality: shipped log fields read only simulation state)", "entropy obtained through function-local imports of other libraries"]
    rep.extra["explanation"] = "symbolic seed plumbing + monitored one-step execution of all seven drivers on a symbolic own generator"
