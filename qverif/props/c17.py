"""C17 -- combining moves and operations with + and * is faithful and order-preserving.

Expression trees over displacement, exchange, cell and generic moves (and over operations) are
built with the real `+` and `*`; tree shape, leaf kinds and multipliers are solver-driven choices
(a finite domain, enumerated exhaustively within the bound).  The result must contain exactly the
reference flattening (leaf identities, order, multiplicity) and be the specialised composite iff
all leaves are of one displacement or one exchange kind.  Invalid multipliers must be refused.
Calling a plain composite calls each element once, in order, and returns `any`.
"""
from __future__ import annotations

import numpy as np

from .. import mcsim, symx
from ..runner import Report, generic_replay, run_plan

ID = "C17"
LEVEL = "model_checking"

KINDS = ("d", "e", "c", "g")


def _leaf(kind):
    from quansino.moves.cell import CellMove
    from quansino.moves.core import BaseMove
    from quansino.moves.displacement import DisplacementMove
    from quansino.moves.exchange import ExchangeMove
    from quansino.operations.displacement import Box

    if kind == "d":
        return DisplacementMove([0, 1])
    if kind == "e":
        return ExchangeMove([0, 1])
    if kind == "c":
        return CellMove()

    class GenericMove(BaseMove):
        def __call__(self, context):
            return True

    return GenericMove(Box(0.1))


SHAPES = {
    1: ["L"],
    2: [("L", "L")],
    3: [(("L", "L"), "L"), ("L", ("L", "L"))],
    4: [((("L", "L"), "L"), "L"), (("L", ("L", "L")), "L"), (("L", "L"), ("L", "L")), ("L", (("L", "L"), "L")), ("L", ("L", ("L", "L")))],
}


def _elements(v):
    for attr in ("moves", "operations"):
        if hasattr(v, attr):
            return list(getattr(v, attr))
    return None


def _build(V, shape, leaves, mults, pos, seen=None):
    """Returns (expression value, reference flat list).  `seen` collects every intermediate value together with
    the elements it had when it was created: an operator must not change its operands."""
    if seen is None:
        seen = []
    if shape == "L":
        i = pos[0]
        pos[0] += 1
        obj = leaves[i]
        m = mults[i]
        if m == 1:
            return obj, [obj]
        v = obj * m
        seen.append((v, _elements(v)))
        return v, [obj] * m
    l, r = shape
    lv, lf = _build(V, l, leaves, mults, pos, seen)
    rv, rf = _build(V, r, leaves, mults, pos, seen)
    v = lv + rv
    seen.append((v, _elements(v)))
    return v, lf + rf


def _operands_unchanged(seen):
    bad = []
    for v, els in seen:
        now = _elements(v)
        if els is not None and (now is None or len(now) != len(els) or any(a is not b for a, b in zip(now, els))):
            bad.append(f"{type(v).__name__}:{len(els)}->{len(now) if now is not None else None}")
    return bad


def sc_moves(V, nleaves=3, kinds=KINDS, reuse=False):
    from quansino.moves.composite import CompositeMove
    from quansino.moves.displacement import CompositeDisplacementMove
    from quansino.moves.exchange import CompositeExchangeMove

    shapes = SHAPES[nleaves]
    shape = shapes[V.choice("shape", len(shapes))]
    ks = [kinds[V.choice(f"kind{i}", len(kinds))] for i in range(nleaves)]
    mults = [1 + V.choice(f"mult{i}", 2) for i in range(nleaves)]
    rootm = 1 + V.choice("rootmult", 2)
    leaves = [_leaf(k) for k in ks]
    info = f"shape={shape}:kinds={''.join(ks)}:mults={mults}:root*{rootm}" + (":reuse" if reuse else "")
    seen = []
    try:
        val, flat = _build(V, shape, leaves, mults, [0], seen)
        if rootm > 1:
            val = val * rootm
            flat = flat * rootm
        if reuse and seen:
            # the same sub-expression object used a second time
            sub, els = seen[V.choice("reuse_which", len(seen))]
            val = val + sub
            flat = flat + list(els)
    except Exception as ex:  # noqa: BLE001
        V.fail("expression-evaluates", info=info + ":" + type(ex).__name__)
        return
    V.reach("built")
    bad = _operands_unchanged(seen)
    V.prove(not bad, "operands-unchanged", info=info + ":" + ",".join(bad[:3]))
    if len(flat) == 1 and not hasattr(val, "moves"):
        V.prove(val is leaves[0], "single-leaf-is-itself", info=info)
        return
    got = list(getattr(val, "moves", []))
    V.prove(len(got) == len(flat) and all(a is b for a, b in zip(got, flat)), "elements-in-order-with-multiplicity", info=info + f":got={len(got)}:want={len(flat)}")
    kinds_set = set(ks)
    if kinds_set == {"d"}:
        want = CompositeDisplacementMove
    elif kinds_set == {"e"}:
        want = CompositeExchangeMove
    else:
        want = CompositeMove
    V.prove(type(val) is want, "specialised-iff-homogeneous", info=info + f":got={type(val).__name__}:want={want.__name__}")


def sc_bad_multiplier(V):
    kinds = KINDS
    k = kinds[V.choice("kind", len(kinds))]
    bad = [0, -1, 1.5, 2.0, "2", None][V.choice("bad", 6)]
    on_composite = bool(V.choice("on_composite", 2))
    obj = _leaf(k)
    if on_composite:
        obj = obj + _leaf(k)
    info = f"kind={k}:n={bad!r}:composite={on_composite}"
    for side in ("left", "right"):
        try:
            r = obj * bad if side == "left" else bad * obj
        except (ValueError, TypeError):
            V.reach("refused")
            continue
        except Exception as ex:  # noqa: BLE001
            V.fail("invalid-multiplier-refused", info=info + f":{side}:{type(ex).__name__}")
            continue
        V.fail("invalid-multiplier-refused", info=info + f":{side}:accepted->{type(r).__name__}")


class _Rec:
    def __init__(self, V, tag, log):
        self.V, self.tag, self.log = V, tag, log

    def __call__(self, context):
        self.log.append(self.tag)
        return self.V.bool(f"res{self.tag}")

    def on_atoms_changed(self, a, r):
        pass

    def on_cell_changed(self, c):
        pass

    def to_dict(self):
        return {"name": "Rec"}


def sc_call(V, k=3):
    from quansino.moves.composite import CompositeMove

    log = []
    comp = CompositeMove([_Rec(V, i, log) for i in range(k)])
    res = []
    orig = [m for m in comp.moves]
    # capture the individual truth values (decided per path)
    out = comp(None)
    vals = [bool(V.bool(f"res{i}")) for i in range(k)]
    V.prove(log == list(range(k)), "each-element-called-once-in-order", info=f"k={k}:log={log}")
    V.prove(bool(out) == any(vals), "succeeds-iff-any-element-does", info=f"k={k}:vals={vals}:out={bool(out)}")
    V.reach("called")


def _op_leaf(kind):
    from quansino.operations.core import BaseOperation
    from quansino.operations.displacement import Ball, Box, Translation

    if kind == "box":
        return Box(0.1)
    if kind == "ball":
        return Ball(0.2)
    if kind == "tr":
        return Translation()

    class UserOp(BaseOperation):
        def calculate(self, context):
            return np.zeros((1, 3))

    return UserOp()


def sc_operations(V, nleaves=3, reuse=False):
    from quansino.operations.composite import CompositeOperation

    kinds = ("box", "ball", "tr", "user")
    shapes = SHAPES[nleaves]
    shape = shapes[V.choice("shape", len(shapes))]
    ks = [kinds[V.choice(f"kind{i}", len(kinds))] for i in range(nleaves)]
    mults = [1 + V.choice(f"mult{i}", 2) for i in range(nleaves)]
    rootm = 1 + V.choice("rootmult", 2)
    leaves = [_op_leaf(k) for k in ks]
    info = f"ops:shape={shape}:kinds={ks}:mults={mults}:root*{rootm}" + (":reuse" if reuse else "")
    seen = []
    try:
        val, flat = _build(V, shape, leaves, mults, [0], seen)
        if rootm > 1:
            val = val * rootm
            flat = flat * rootm
        if reuse and seen:
            sub, els = seen[V.choice("reuse_which", len(seen))]
            val = val + sub
            flat = flat + list(els)
    except Exception as ex:  # noqa: BLE001
        V.fail("expression-evaluates", info=info + ":" + type(ex).__name__)
        return
    V.reach("built")
    bad = _operands_unchanged(seen)
    V.prove(not bad, "operands-unchanged", info=info + ":" + ",".join(bad[:3]))
    if len(flat) == 1 and not hasattr(val, "operations"):
        V.prove(val is leaves[0], "single-leaf-is-itself", info=info)
        return
    got = list(getattr(val, "operations", []))
    V.prove(type(val) is CompositeOperation, "composite-operation", info=info)
    V.prove(len(got) == len(flat) and all(a is b for a, b in zip(got, flat)), "elements-in-order-with-multiplicity", info=info + f":got={len(got)}:want={len(flat)}")


SCENARIOS = {"moves": sc_moves, "bad_multiplier": sc_bad_multiplier, "call": sc_call, "operations": sc_operations}
replay = generic_replay(SCENARIOS)


def _plan(tier):
    q = tier == "quick"
    P = [
        ("moves", dict(nleaves=2), ("built",)),
        ("moves", dict(nleaves=3), ("built",)),
        ("bad_multiplier", dict(), ("refused",)),
        ("call", dict(k=3), ("called",)),
        ("operations", dict(nleaves=2), ("built",)),
        ("operations", dict(nleaves=3), ("built",)),
        ("operations", dict(nleaves=2, reuse=True), ("built",)),
        ("moves", dict(nleaves=2, reuse=True), ("built",)),
    ]
    if not q:
        P.append(("moves", dict(nleaves=4, kinds=("d", "e", "c")), ("built",)))
        P.append(("call", dict(k=4), ("called",)))
        P.append(("operations", dict(nleaves=3, reuse=True), ("built",)))
        P.append(("moves", dict(nleaves=3, reuse=True, kinds=("d", "e", "c")), ("built",)))
    P.append(("moves", dict(nleaves=2), (), "specialised-iff-homogeneous"))
    return P


def run(rep: Report):
    tier = rep.tier
    opts = {"prove_timeout_ms": 5000, "fork_timeout_ms": 2000, "seed": rep.seed, "scenario_wall_s": 900 if tier == "quick" else 2400}
    run_plan(rep, _plan(tier), SCENARIOS, opts)
    if tier == "thorough":
        from ..runner import run_crosshair

        run_crosshair(rep, "ch_c17")
    rep.bounds = {"leaves": "<=3 (quick) / 4 (thorough, three kinds)", "parenthesisations": "all (Catalan shapes)", "leaf kinds": "displacement, exchange, cell, user subclass of BaseMove; operations: Box, Ball, Translation, user subclass", "multipliers": "1-2 per leaf and at the root; invalid: 0, -1, 1.5, 2.0, '2', None"}
    rep.assumptions = ["finite discrete domain: the solver drives an exhaustive enumeration; no arithmetic is being proved"]
    rep.stubs = ["recording bare moves with symbolic truthiness"]
    rep.outside = ["trees with more than 4 leaves", "multipliers above 2"]
    rep.extra["explanation"] = "exhaustive (solver-driven) enumeration of expression trees within the bound against a reference flattener"
    rep.extra["exhaustive"] = True
