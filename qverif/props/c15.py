"""C15 -- observers fire on schedule and splitting a run does not change it.

The real Driver.irun / call_observers / converged / run, MonteCarlo.run / srun and the real Logger
run with SYMBOLIC observer intervals (positive and negative), symbolic segment lengths a and b and
each of the three entry points.  Recording observers and a recording log stream give, per path, the
concrete call log; it must equal the reference schedule, the header must be written once and first,
`run(a); run(b)` must equal `run(a+b)` (call logs, step counter, executed steps, file operations),
and the three entry points must agree.
"""
from __future__ import annotations

import numpy as np
import z3

from .. import mcsim, shims, symx
from ..runner import Report, generic_replay, run_plan
from ..symx import E, SB, SI, lift
from .c09 import _true

ID = "C15"
LEVEL = "model_checking"


class RecObserver:
    def __init__(self, interval, sim, log, tag):
        self.interval = interval
        self.sim, self.log, self.tag = sim, log, tag

    def __call__(self):
        self.log.append((self.tag, int(self.sim.step_count)))

    def close(self):
        pass

    def to_dict(self):
        return {"name": "RecObserver"}


class RecStream:
    """Text stream recording every operation (the content is concrete)."""

    def __init__(self):
        self.ops = []
        self.closed = False

    def write(self, s):
        self.ops.append(("write", str(s)))
        return len(s)

    def flush(self):
        self.ops.append(("flush",))

    def seekable(self):
        return True

    def seek(self, *a):
        self.ops.append(("seek",) + a)

    def truncate(self, *a):
        self.ops.append(("truncate",))

    def close(self):
        self.closed = True


class ZeroCalc:
    def __init__(self):
        self.results = {"energy": 0.0}

    def get_potential_energy(self, atoms=None, force_consistent=False):
        return 0.0

    def get_forces(self, atoms=None):
        return np.zeros((len(atoms), 3))


class Runaway(Exception):
    """The driver keeps stepping although every request of the scenario has long been served."""


RUNAWAY = 40


def _mk(V, driver, intervals, log_interval):
    from ase import Atoms
    from ase.constraints import FixCom

    atoms = Atoms("H2", positions=[[0, 0, 0], [0, 0, 0.8]])
    atoms.calc = ZeroCalc()
    stream = RecStream()
    if driver == "mc":
        from quansino.mc.core import MonteCarlo

        sim = MonteCarlo(atoms, max_cycles=1, seed=3, logfile=stream, logging_interval=log_interval, logging_mode="w")
    else:
        from quansino.mc.fbmc import ForceBias

        atoms.set_constraint(FixCom())
        sim = ForceBias(atoms, delta=0.01, temperature=300.0, seed=3, logfile=stream, logging_interval=log_interval, logging_mode="w")
    log = []
    for k, iv in enumerate(intervals):
        sim.file_manager.attach_observer(f"rec{k}", RecObserver(iv, sim, log, k))
    steps = [0]
    orig_step = sim.step

    def counting_step():
        steps[0] += 1
        if steps[0] > RUNAWAY:
            raise Runaway(steps[0])  # far more steps than any call of these scenarios may request
        return orig_step()

    sim.step = counting_step
    return sim, log, stream, steps


def _drive(sim, entry, n):
    if entry == "run":
        sim.run(n)
    elif entry == "srun":
        for _ in sim.srun(n):
            pass
    else:
        for s in sim.irun(n):
            if s is not None and hasattr(s, "__iter__") and not isinstance(s, np.ndarray):
                for _ in s:
                    pass


def _expected(V, intervals, total_max, total):
    """Reference call log for a run of `total` steps (total symbolic; per-path decided)."""
    exp = []
    for k in range(0, total_max + 1):
        within = _true(V, total >= k)
        if not within:
            continue
        for t, iv in enumerate(intervals):
            pos = _true(V, iv > 0)
            if pos:
                hit = (k == 0) or _true(V, (k % iv) == 0)
            else:
                hit = _true(V, (-iv) == k) and k > 0
            if hit:
                exp.append((t, k))
    return exp


def sc_split(V, driver="mc", entry="run", nobs=1, amax=2):
    ivs = []
    for k in range(nobs):
        iv = V.int(f"iv{k}", -3, 3)
        V.assume(iv != 0)
        ivs.append(iv)
    liv = V.int("log_iv", 1, 3)
    a = V.int("a", 0, amax)
    b = V.int("b", 0, amax)
    info = f"{driver}:{entry}:nobs={nobs}"
    # split run
    sim1, log1, st1, steps1 = _mk(V, driver, ivs, liv)
    sim2, log2, st2, steps2 = _mk(V, driver, ivs, liv)
    try:
        _drive(sim1, entry, a)
        _drive(sim1, entry, b)
        # single run
        _drive(sim2, entry, a + b)
    except Runaway as ex:
        V.reach("zero-length-segment")
        V.reach("both-segments-nonempty")
        V.fail("exactly-the-requested-steps", info=info + f":more than {RUNAWAY} steps performed ({ex})")
        return
    total = a + b
    exp = _expected(V, ivs, 2 * amax, total)
    V.reach("zero-length-segment" if (_true(V, a == 0) or _true(V, b == 0)) else "both-segments-nonempty")
    V.prove(sorted(log2) == sorted(exp) and [x for x in log2] == sorted(log2, key=lambda r: (r[1], r[0])), "observers-fire-on-schedule", info=info + f":got={log2}:want={exp}")
    V.prove(_true(V, total == steps2[0]) and _true(V, sim2.step_count == total), "exactly-the-requested-steps", info=info + f":steps={steps2[0]}")
    V.prove(log1 == log2, "split-run==single-run:observer-calls", info=info + f":split={log1}:single={log2}")
    V.prove(steps1[0] == steps2[0] and _true(V, sim1.step_count == sim2.step_count), "split-run==single-run:steps", info=info + f":{steps1[0]}!={steps2[0]}")
    w1 = [o for o in st1.ops if o[0] == "write"]
    w2 = [o for o in st2.ops if o[0] == "write"]
    V.prove(len(w2) >= 1 and "Step" in w2[0][1] and sum(1 for o in w2 if "Step" in o[1]) == 1, "header-once-and-first", info=info + f":writes={[o[1][:12] for o in w2]}")
    V.prove([o[1] for o in w1] == [o[1] for o in w2], "split-run==single-run:log-file", info=info + f":split={len(w1)}:single={len(w2)}")
    # one complete, flushed line per logger call: every data write is followed by a flush
    ok_flush = all(st2.ops[i + 1][0] == "flush" for i, o in enumerate(st2.ops[:-1]) if o[0] == "write" and "Step" not in o[1]) and (not st2.ops or st2.ops[-1][0] == "flush" or "Step" in st2.ops[-1][1])
    V.prove(ok_flush, "log-rows-flushed", info=info)
    rows = [o for o in w2 if "Step" not in o[1]]
    exp_rows = [k for k in range(0, 2 * amax + 1) if _true(V, total >= k) and (k == 0 or _true(V, (k % liv) == 0))]
    V.prove(len(rows) == len(exp_rows), "one-log-row-per-logger-call", info=info + f":rows={len(rows)}:want={len(exp_rows)}")


def sc_entries(V, driver="mc", nobs=2, nmax=3):
    ivs = []
    for k in range(nobs):
        iv = V.int(f"iv{k}", -3, 3)
        V.assume(iv != 0)
        ivs.append(iv)
    n = V.int("n", 0, nmax)
    logs = {}
    for entry in ("run", "srun", "irun"):
        if driver == "fb" and entry == "srun":
            continue
        sim, log, st, steps = _mk(V, driver, ivs, 1)
        try:
            _drive(sim, entry, n)
        except Runaway as ex:
            V.reach("done")
            V.fail("exactly-the-requested-steps", info=f"{driver}:entries:{entry}:more than {RUNAWAY} steps performed ({ex})")
            return
        logs[entry] = (list(log), steps[0], [o[1] for o in st.ops if o[0] == "write"])
    vals = list(logs.values())
    exp = _expected(V, ivs, nmax, n)
    got = vals[0][0]
    V.prove(sorted(got) == sorted(exp) and got == sorted(got, key=lambda r: r[1]) , "observers-fire-on-schedule", info=f"{driver}:nobs={nobs}:got={got}:want={exp}")
    V.prove(all(v == vals[0] for v in vals[1:]), "run==srun==irun", info=f"{driver}:" + ";".join(f"{k}:{v[0]}" for k, v in logs.items()))
    V.prove(_true(V, n == vals[0][1]), "exactly-the-requested-steps", info=f"{driver}:entries")
    V.reach("done")


def sc_files(V, entry="run", amax=2):
    """A real Canonical simulation (real generator, real calculator, trajectory and restart observers):
    the files written by run(a); run(b) equal those of run(a+b), for every split incl. zero-length
    calls.  Everything but (a, b) is concrete here; the splits are enumerated by solver-driven forks."""
    import io

    from ase import Atoms
    from ase.calculators.lj import LennardJones

    from quansino.io.restart import RestartObserver
    from quansino.io.trajectory import TrajectoryObserver
    from quansino.mc.canonical import Canonical
    from quansino.moves.displacement import DisplacementMove
    from quansino.operations.displacement import Ball

    a = int(V.int("a", 0, amax))
    b = int(V.int("b", 0, amax))
    if V.mode == "sym":
        # nothing symbolic beyond the split: run the concrete experiment on the unpatched modules
        import json
        import os
        import subprocess
        import tempfile

        from ..runner import PY, ROOT

        V.reach("zero-length-segment" if (a == 0 or b == 0) else "both-segments-nonempty")
        for lab in ("split-run==single-run:trajectory", "split-run==single-run:trajectory-file", "split-run==single-run:restart-file"):
            with tempfile.NamedTemporaryFile("w", suffix=".json", delete=False) as fh:
                json.dump({"property": "C15", "scenario": "files", "params": {"entry": entry, "amax": amax}, "label": lab, "witness": {"symbols": {"a": a, "b": b}, "draws": []}}, fh)
            try:
                p = subprocess.run([PY, "-m", "qverif.main", "C15", "--replay", fh.name, "--quiet"], cwd=ROOT, capture_output=True, text=True, timeout=200)
            finally:
                os.unlink(fh.name)
            if p.returncode == 1:
                V.fail(lab, info=f"files:{entry}:a={a}:b={b}")
            else:
                V.prove(p.returncode == 0, lab, info=f"files:{entry}:a={a}:b={b}:replay-exit={p.returncode}")
        return

    def sim():
        atoms = Atoms("Ar3", positions=[[0.9, 1.1, 1.3], [2.1, 1.5, 1.6], [3.2, 1.1, 2.6]], cell=[7.0, 7.0, 7.0], pbc=True)
        atoms.calc = LennardJones(sigma=1.0, epsilon=0.02, rc=3.0)
        mc = Canonical(atoms, temperature=25.0, max_cycles=2, seed=9, default_displacement_move=DisplacementMove(np.arange(3), Ball(0.9)))  # cold: rejections come first
        tr, rs = RecText(), RecText()
        mc.file_manager.attach_observer("traj", TrajectoryObserver(atoms, tr, interval=1, mode="w"))
        mc.file_manager.attach_observer("rest", RestartObserver(mc, rs, interval=1, mode="w"))
        return mc, atoms, tr, rs

    m1, a1, t1, r1 = sim()
    _drive(m1, entry, a)
    _drive(m1, entry, b)
    m2, a2, t2, r2 = sim()
    _drive(m2, entry, a + b)
    info = f"files:{entry}:a={a}:b={b}"
    V.reach("zero-length-segment" if (a == 0 or b == 0) else "both-segments-nonempty")
    V.prove(m1.step_count == m2.step_count and np.array_equal(a1.positions, a2.positions), "split-run==single-run:trajectory", info=info)
    V.prove(t1.text() == t2.text(), "split-run==single-run:trajectory-file", info=info)
    V.prove(r1.text() == r2.text(), "split-run==single-run:restart-file", info=info)


class RecText:
    """Seekable in-memory text file."""

    def __init__(self):
        import io

        self.f = io.StringIO()
        self.closed = False

    def write(self, s):
        return self.f.write(s)

    def flush(self):
        pass

    def seek(self, *a):
        return self.f.seek(*a)

    def truncate(self, *a):
        return self.f.truncate(*a)

    def seekable(self):
        return True

    def close(self):
        pass

    def text(self):
        return self.f.getvalue()


SCENARIOS = {"split": sc_split, "entries": sc_entries, "files": sc_files}
replay = generic_replay(SCENARIOS)


def _plan(tier):
    q = tier == "quick"
    R = ("zero-length-segment", "both-segments-nonempty")
    P = [
        ("split", dict(driver="mc", entry="run", nobs=1, amax=2), R),
        ("split", dict(driver="mc", entry="srun", nobs=1, amax=2), R),
        ("split", dict(driver="fb", entry="run", nobs=1, amax=2), R),
        ("entries", dict(driver="mc", nobs=2, nmax=3), ("done",)),
        ("entries", dict(driver="fb", nobs=1, nmax=3), ("done",)),
        ("files", dict(entry="run", amax=2), R),
    ]
    if not q:
        P.append(("split", dict(driver="mc", entry="irun", nobs=2, amax=3), R))
        P.append(("split", dict(driver="fb", entry="irun", nobs=2, amax=2), R))
        P.append(("entries", dict(driver="mc", nobs=2, nmax=4), ("done",)))
    P.append(("split", dict(driver="mc", entry="run", nobs=1, amax=2), (), "split-run==single-run:observer-calls"))
    return P


def run(rep: Report):
    tier = rep.tier
    opts = {"prove_timeout_ms": 10000, "fork_timeout_ms": 2000, "seed": rep.seed, "scenario_wall_s": 900 if tier == "quick" else 1500}
    run_plan(rep, _plan(tier), SCENARIOS, opts)
    if tier == "thorough":
        from ..runner import run_crosshair

        run_crosshair(rep, "ch_c15")
    rep.bounds = {"observer intervals": "symbolic in [-3,3] \\ {0}, one or two observers", "segments": "a, b symbolic in [0,2] (quick) / [0,3]", "entry points": "run, srun, irun", "drivers": "MonteCarlo (empty move table) and ForceBias"}
    rep.assumptions = ["the content of a step is abstracted (empty move table / zero forces): its content is C03-C06's subject", "the log stream is a recording object; text formatting runs concretely"]
    rep.stubs = ["RecObserver, RecStream, ZeroCalc"]
    rep.outside = ["trajectory equality of split runs beyond step counts (follows from C06/C07 given equal step sequences)"]
    rep.extra["explanation"] = "bounded model checking of the real run loop with symbolic intervals and segment lengths"
