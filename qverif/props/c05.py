"""C05 -- grand-canonical bookkeeping tracks the real system.

One-trial induction on the label <-> atom correspondence.  Atoms carry ghost identities (tags), so
after the trial every surviving atom can be traced back: its label in EVERY label-bearing move
must be its old label; the atoms of one inserted particle share one label, distinct particles get
distinct labels, a configured default label (0 and negative included) is honoured; the particle
counter moves by accepted insertions minus accepted deletions; the user's template is untouched.
"""
from __future__ import annotations

import numpy as np

from .. import mcsim, symx
from ..runner import Report, generic_replay, run_plan
from . import c03

ID = "C05"
LEVEL = "model_checking"


def label_bearers(mc):
    out = []
    for name, st in mc.moves.items():
        for m in c03._moves_of(st.move):
            if hasattr(m, "labels") and not any(m is x for _, x in out):
                out.append((name, m))
    return out


def sc_trial(V, table="e", n=2, default="none", molecular=False, with_disp=True, check=False, warm=0):
    info = f"{table}:n={n}:default={default}:mol={molecular}:disp={with_disp}" + (f":after-{warm}-earlier-trial(s)" if warm else "")
    coin = table != "e" or warm > 0  # (histories: the verdicts are free coins, the shipped criteria is C02's subject)
    mc, atoms, pes, move, labels, exch = c03.build(V, "GrandCanonical", table, n, (), check, "caching", molecular, False, coin)
    if with_disp:
        from quansino.moves.displacement import DisplacementMove
        from quansino.operations.displacement import Box

        if with_disp == "regroup":
            # a second label-bearing move that groups the atoms differently (its own, independent labeling):
            # a particle of the exchange move may be only part of a group of this one
            own = mcsim.labels_for(V, n, -1, 1, name="dl")
            mc.add_move(DisplacementMove(own, Box(0.2)), name="disp", probability=0.0)
        else:
            mc.add_move(DisplacementMove(labels.copy(), Box(0.2)), name="disp", probability=0.0)
        if with_disp == "nested":
            # a composite in which the same two objects recur non-adjacently: (a + b) * 2 = [a, b, a, b]
            from quansino.mc.criteria import CanonicalCriteria

            a_ = DisplacementMove(labels.copy(), Box(0.2))
            b_ = DisplacementMove(labels.copy(), Box(0.1))
            mc.add_move((a_ + b_) * 2, criteria=CanonicalCriteria(), name="nested", probability=0.0)
    dl = {"none": None, "zero": 0, "neg": -1, "five": 5}[default]
    bearers = label_bearers(mc)
    for _, m in bearers:
        m.default_label = dl
    for _ in range(warm):
        # an earlier trial of any outcome (the judged trial then starts from a state a real history produced, with
        # whatever the earlier trial left behind in the moves and the context)
        try:
            _, v0 = mcsim.run_trial(mc)
        except (symx.PathAbort, symx.BoundHit, symx.Unsupported, symx.ReplayMismatch):
            raise
        except Exception as ex:  # noqa: BLE001
            V.reach("raised:" + type(ex).__name__)
            return
        V.reach("earlier-" + {None: "failed", False: "rejected", True: "accepted"}[None if v0 is None else bool(v0)])
        atoms.set_tags(np.arange(10, 10 + len(atoms)))  # fresh ghost identities (inserted atoms carried the template's tag)
    old = {id(m): np.array(m.labels).copy() for _, m in bearers}
    tags0 = [int(t) for t in atoms.get_tags()]
    n0 = mc.context.number_of_exchange_particles
    tmpl_pos = np.array(exch.arrays["positions"]).copy()
    tmpl_n = len(exch)
    try:
        name, verdict = mcsim.run_trial(mc)
    except (symx.PathAbort, symx.BoundHit, symx.Unsupported, symx.ReplayMismatch):
        raise
    except Exception as ex:  # noqa: BLE001
        V.reach("raised:" + type(ex).__name__)
        V.fail("trial-completes", info=info + ":" + type(ex).__name__ + ":" + str(ex)[:60])
        return
    v = None if verdict is None else bool(verdict)
    kind = {None: "failed", False: "rejected", True: "accepted"}[v]
    V.reach(kind)
    what = info + ":" + kind
    tags1 = [int(t) for t in atoms.get_tags()]
    survivors = [(i, tags0.index(t)) for i, t in enumerate(tags1) if t in tags0]
    new_idx = [i for i, t in enumerate(tags1) if t not in tags0]
    removed_old = [j for j, t in enumerate(tags0) if t not in tags1]
    if v is not True:
        V.prove(not new_idx and not removed_old, "rejected-trial-changes-no-atoms", info=what)
    k = len(exch)
    n_ins = len(new_idx) // k if k else 0
    if new_idx:
        V.reach("insertion-accepted")
    if removed_old:
        V.reach("deletion-accepted")
    for mname, m in label_bearers(mc):
        lab = np.array(m.labels)
        ol = old[id(m)]
        w = what + f":move={mname}/{type(m).__name__}"
        if not V.prove(len(lab) == len(atoms), "labels-length==atoms", info=w + f":{len(lab)}!={len(atoms)}"):
            continue
        V.prove(np.array_equal(np.array(m.unique_labels), np.unique(lab[lab >= 0])), "unique-labels-consistent", info=w)
        okA = all(int(lab[i]) == int(ol[j]) for i, j in survivors)
        V.prove(okA, "surviving-atoms-keep-their-labels", info=w)
        if new_idx:
            groups = [new_idx[g * k:(g + 1) * k] for g in range(n_ins)]
            glabels = []
            share = True
            for g in groups:
                ls = {int(lab[i]) for i in g}
                share = share and len(ls) == 1
                glabels.append(min(ls))
            V.prove(share, "atoms-of-one-particle-share-one-label", info=w)
            if dl is not None:
                V.prove(all(x == dl for x in glabels), "configured-default-label-honoured", info=w + f":got={glabels}:want={dl}")
            else:
                existing = {int(x) for x in ol if x >= 0}
                V.prove(all(x >= 0 and x not in existing for x in glabels), "new-label-is-fresh", info=w + f":got={glabels}:existing={sorted(existing)}")
                V.prove(len(set(glabels)) == len(glabels), "distinct-particles-distinct-labels", info=w + f":got={glabels}")
    if v is True:
        # particles removed = distinct labels (of the acting exchange move) among the removed atoms
        acting = [m for nm, m in label_bearers(mc) if nm == "m"]
        ol = old[id(acting[0])] if acting else labels
        n_del = len({int(ol[j]) for j in removed_old})
        V.prove(mc.context.number_of_exchange_particles == n0 + n_ins - n_del, "particle-counter==initial+insertions-deletions", info=what + f":{mc.context.number_of_exchange_particles}!={n0}+{n_ins}-{n_del}")
    else:
        V.prove(mc.context.number_of_exchange_particles == n0, "particle-counter-unchanged-on-reject", info=what)
    V.prove(len(exch) == tmpl_n and mcsim.same(V, exch.arrays["positions"], tmpl_pos), "template-untouched", info=what)
    if new_idx:
        alias = any(atoms.arrays[a] is exch.arrays.get(a) for a in atoms.arrays)
        V.prove(not alias, "template-not-aliased", info=what)


SCENARIOS = {"trial": sc_trial}
replay = generic_replay(SCENARIOS)


def _plan(tier):
    P = []
    q = tier == "quick"
    R = ("rejected", "accepted", "insertion-accepted", "deletion-accepted")
    for d in ("none", "zero", "neg", "five"):
        P.append(("trial", dict(table="e", n=2, default=d, molecular=False, with_disp=True), R))
    P.append(("trial", dict(table="e", n=3, default="none", molecular=True, with_disp=True), R))
    P.append(("trial", dict(table="e2", n=2, default="none", molecular=False, with_disp=False), R))
    P.append(("trial", dict(table="e+e", n=2, default="none", molecular=False, with_disp=True), R))
    P.append(("trial", dict(table="e", n=2, default="none", molecular=False, with_disp=True, check=True), R + ("failed",)))
    P.append(("trial", dict(table="e", n=2, default="five", molecular=False, with_disp="nested"), R))
    P.append(("trial", dict(table="e", n=2, default="none", molecular=False, with_disp="regroup"), R))
    P.append(("trial", dict(table="e", n=2, default="none", molecular=False, with_disp=True, warm=1), R + ("earlier-accepted", "earlier-rejected")))
    P.append(("trial", dict(table="swap", n=2, default="five", molecular=False, with_disp=True), ("rejected", "accepted")))
    P.append(("trial", dict(table="swap", n=3, default="none", molecular=True, with_disp=True), ("rejected", "accepted")))
    if not q:
        P.append(("trial", dict(table="e", n=3, default="zero", molecular=True, with_disp=True), R))
        P.append(("trial", dict(table="e", n=3, default="none", molecular=False, with_disp="regroup"), R))
        P.append(("trial", dict(table="e", n=2, default="zero", molecular=False, with_disp="regroup", warm=1), R + ("earlier-accepted", "earlier-rejected")))
        P.append(("trial", dict(table="e+e", n=2, default="none", molecular=False, with_disp=True, warm=1), R + ("earlier-accepted",)))
        P.append(("trial", dict(table="e2", n=3, default="five", molecular=False, with_disp=True), R))
        P.append(("trial", dict(table="e+e", n=3, default="none", molecular=True, with_disp=False), R))
        P.append(("trial", dict(table="e", n=3, default="none", molecular=False, with_disp=True), R))
    P.append(("trial", dict(table="e", n=2, default="none", molecular=False, with_disp=True), (), "surviving-atoms-keep-their-labels"))
    return P


def run(rep: Report):
    tier = rep.tier
    opts = {"prove_timeout_ms": 10000, "fork_timeout_ms": 2000, "seed": rep.seed, "scenario_wall_s": 900 if tier == "quick" else 1200}
    run_plan(rep, _plan(tier), SCENARIOS, opts)
    rep.bounds = {"atoms before the trial": "2 (quick) / 3", "labels": "every labeling in [-1,1]^n / [-1,2]^n, diatomic species", "default_label": "None, 0, -1, 5", "tables": "e (+ a second label-bearing displacement move), e*2, e+e", "trials": "1 (inductive step); 2-trial histories with any first outcome"}
    rep.assumptions = ["a particle = the atoms sharing one non-negative label in that move", "atoms carry ghost identities in `tags` (template atoms have tag 0)", "composite exchange tables use a coin criteria (the shipped criteria has no formula for |delta|>1)"]
    rep.stubs = ["SymAtoms, SymRNG, ModelCalc(caching) over an uninterpreted PES", "CoinCriteria"]
    rep.outside = ["|delta|>2 per trial", "histories of several trials directly (covered inductively: alignment + counter are re-established after every trial)"]
    rep.extra["explanation"] = "bounded model checking of one grand-canonical trial from an arbitrary aligned state (inductive step) with ghost atom identities"
