"""C19 -- reinsertion inverts deletion; molecule search partitions atoms by bonds.

(a) real ase `atoms[idx]`, `del atoms[idx]` and quansino's `reinsert_atoms` on atoms whose arrays
(positions, momenta, charges, a custom 2-D array) are symbolic and whose species/tags are distinct
markers: for EVERY ordered tuple of distinct indices the result must be term-identical to the
original, no array added or lost, integer arrays still integer.
(b) real `search_molecules` (real networkx) with ase's `neighbor_list` replaced by its contract over
a symbolic symmetric adjacency: labels equal <=> same connected component of admitted size; all
other atoms keep the supplied default entry; any default array accepted.
"""
from __future__ import annotations

import itertools

import numpy as np

from .. import mcsim, shims, symx
from ..runner import Report, generic_replay, run_plan

ID = "C19"
LEVEL = "model_checking"


def sc_reinsert(V, n=4, k=2, with_fixed=False, signs=False):
    from quansino.utils.atoms import reinsert_atoms

    atoms = mcsim.make_atoms(V, n, momenta=True, extras=True)
    # ordered tuple of k distinct indices, every order
    idx = []
    for j in range(k):
        free = [i for i in range(n) if i not in idx]
        idx.append(free[V.choice(f"idx{j}", len(free))])
    if signs:
        # each index may be written from the end (i - n): the same atoms, any mixture of the two spellings
        idx = [i - n if V.choice(f"neg{j}", 2) else i for j, i in enumerate(idx)]
    info = f"reinsert:n={n}:indices={idx}"
    snap = mcsim.snapshot(V, atoms)
    dtypes0 = {name: a.dtype for name, a in atoms.arrays.items()}
    deleted = atoms[idx]
    del atoms[idx]
    V.prove(len(atoms) == n - k, "deletion-removes-k-atoms", info=info)
    reinsert_atoms(atoms, deleted, idx)
    diff = [d for d in mcsim.restored(V, atoms, snap) if not d.startswith("constrained")]
    V.prove(not diff, "restored-exactly", info=info + ":" + ";".join(diff))
    for name, a in atoms.arrays.items():
        d0 = dtypes0.get(name)
        if d0 is None:
            continue
        if V.mode == "sym":
            ok = (a.dtype == d0) if d0.kind in "iub" else (a.dtype == object or a.dtype.kind == "f")
        else:
            ok = a.dtype == d0
        V.prove(ok, "dtype-preserved", info=info + f":{name}:{d0}->{a.dtype}")
    V.reach("done")


def sc_reinsert_new_array(V, n=3):
    """The re-inserted atoms carry an array the survivors lost or never had."""
    from quansino.utils.atoms import reinsert_atoms

    atoms = mcsim.make_atoms(V, n, momenta=False, extras=False)
    idx = [V.choice("i0", n)]
    deleted = atoms[idx]
    extra = V.array("e", (1, 2))
    if V.mode == "sym":
        deleted.arrays["extra"] = np.array(extra, dtype=object)
    else:
        deleted.set_array("extra", extra)
    pos0 = np.array(atoms.arrays["positions"]).copy()
    del atoms[idx]
    reinsert_atoms(atoms, deleted, idx)
    info = f"reinsert-new-array:n={n}:idx={idx}"
    V.prove(mcsim.same(V, atoms.arrays["positions"], pos0), "restored-exactly", info=info)
    ok = "extra" in atoms.arrays and len(atoms.arrays["extra"]) == n
    V.prove(ok, "new-array-carried-over", info=info)
    if ok:
        V.prove(mcsim.same(V, atoms.arrays["extra"][idx[0]], np.asarray(extra)[0]), "new-array-carried-over", info=info)
    V.reach("done")


def _components(n, adj):
    parent = list(range(n))

    def find(x):
        while parent[x] != x:
            parent[x] = parent[parent[x]]
            x = parent[x]
        return x

    for a in range(n):
        for b in range(a + 1, n):
            if adj[a][b]:
                parent[find(a)] = find(b)
    comp = {}
    for a in range(n):
        comp.setdefault(find(a), []).append(a)
    return list(comp.values())


SIZES = {"none": None, "two": 2, "one-two": (1, 2), "two-three": (2, 3), "three": 3}


def sc_molecules(V, n=4, size="none", default="none"):
    import quansino.utils.atoms as qua

    adj = [[False] * n for _ in range(n)]
    for a in range(n):
        for b in range(a + 1, n):
            adj[a][b] = adj[b][a] = bool(V.bool(f"bond{a}{b}"))

    def nl_stub(quantities, atoms, cutoff=None, self_interaction=False):
        i = [a for a in range(n) for b in range(n) if a != b and adj[a][b]]
        j = [b for a in range(n) for b in range(n) if a != b and adj[a][b]]
        return np.array(i, dtype=int), np.array(j, dtype=int)

    saved = qua.neighbor_list
    qua.neighbor_list = nl_stub
    try:
        from ase import Atoms

        atoms = Atoms("H" * n, positions=[[1.7 * i, 0, 0] for i in range(n)])
        rs = SIZES[size]
        if default == "none":
            dflt = None
            expect_default = np.full(n, -1)
        elif default == "array":
            dflt = np.arange(100, 100 + n)
            expect_default = dflt.copy()
        else:
            dflt = [-(5 + i) for i in range(n)]
            expect_default = np.array(dflt)
        info = f"molecules:n={n}:size={size}:default={default}:bonds={[(a, b) for a in range(n) for b in range(a + 1, n) if adj[a][b]]}"
        try:
            out = qua.search_molecules(atoms, cutoff=1.0, required_size=rs, default_array=dflt)
        except Exception as ex:  # noqa: BLE001
            V.fail("search-completes", info=f"molecules:size={size}:default={default}:" + type(ex).__name__)
            return
    finally:
        qua.neighbor_list = saved
    out = np.asarray(out)
    V.prove(out.shape == (n,), "one-entry-per-atom", info=info)
    comps = _components(n, adj)
    if rs is None:
        lo, hi = 0, n
    elif isinstance(rs, int):
        lo = hi = rs
    else:
        lo, hi = rs
    admitted = [c for c in comps if lo <= len(c) <= hi]
    adm_atoms = {a for c in admitted for a in c}
    ok = True
    for a in range(n):
        if a not in adm_atoms:
            ok = ok and int(out[a]) == int(expect_default[a])
    V.prove(ok, "other-atoms-keep-the-default", info=info + f":out={out.tolist()}")
    ok2 = all(int(out[a]) >= 0 for a in adm_atoms)
    for c1 in admitted:
        for a in c1:
            for c2 in admitted:
                for b in c2:
                    same_label = int(out[a]) == int(out[b])
                    ok2 = ok2 and (same_label == (c1 is c2))
    V.prove(ok2, "same-label-iff-same-admitted-component", info=info + f":out={out.tolist()}")
    V.reach("done")


SCENARIOS = {"reinsert": sc_reinsert, "reinsert_new": sc_reinsert_new_array, "molecules": sc_molecules}
replay = generic_replay(SCENARIOS)


def _plan(tier):
    q = tier == "quick"
    P = [
        ("reinsert", dict(n=3, k=1), ("done",)),
        ("reinsert", dict(n=4, k=2), ("done",)),
        ("reinsert", dict(n=4, k=3), ("done",)),
        ("reinsert_new", dict(n=3), ("done",)),
        ("reinsert", dict(n=4, k=2, signs=True), ("done",)),
        ("reinsert", dict(n=3, k=3, signs=True), ("done",)),
    ]
    for size in (("none", "two", "one-two") if q else tuple(SIZES)):
        for d in ("none", "array", "list"):
            P.append(("molecules", dict(n=3 if q else 4, size=size, default=d), ("done",)))
    if not q:
        P.append(("reinsert", dict(n=5, k=3), ("done",)))
        P.append(("reinsert", dict(n=4, k=3, signs=True), ("done",)))
    P.append(("reinsert", dict(n=4, k=2), (), "restored-exactly"))
    return P


def run(rep: Report):
    tier = rep.tier
    opts = {"prove_timeout_ms": 10000, "fork_timeout_ms": 2000, "seed": rep.seed, "scenario_wall_s": 900 if tier == "quick" else 1200}
    run_plan(rep, _plan(tier), SCENARIOS, opts)
    rep.bounds = {"atoms": "<=4 (5 in thorough)", "index tuples": "every ordered tuple of k<=3 distinct indices, each written from the front or from the end (negative), any mixture", "adjacency": "every symmetric relation on 3 (quick) / 4 atoms", "size filters": list(SIZES), "defaults": "None, ndarray, list"}
    rep.assumptions = ["array contents symbolic (term identity = bit-for-bit); species and tags are distinct markers", "ase neighbor_list replaced by its contract: it returns exactly the ordered pairs of the adjacency relation"]
    rep.stubs = ["neighbor_list contract stub", "SymAtoms with real ase __getitem__/__delitem__"]
    rep.outside = ["geometry -> adjacency (ase's neighbour list, minimum image)", "float dtypes in symbolic mode (checked on replay only)"]
    rep.extra["explanation"] = "bounded model checking over all index tuples / adjacency relations with symbolic array contents"
