"""C04 -- energies used for acceptance belong to the configuration they describe.

One-trial induction with the invariant: reference energy = U(current configuration) (U an
uninterpreted potential-energy surface), remembered positions/cell = current, calculator cache
either empty or describing the current configuration.  After ANY verdict the invariant must hold
again, the reported energy must equal a from-scratch evaluation and cost no evaluation on caching
calculators, exactly one evaluation is spent per judged (non-Hamiltonian) trial and none on a
failed one, and the calculator must still work for the next configuration.  Three calculator
contracts: stateless, result-caching (ase Calculator), caching + neighbour list (EMT/EAM/LJ).
"""
from __future__ import annotations

import numpy as np

from .. import mcsim, symx
from ..runner import Report, generic_replay, run_plan
from . import c03

ID = "C04"
LEVEL = "model_checking"


def _eq(V, a, b):
    """Energy equality: same value for every interpretation of U (solver) / equal floats (replay)."""
    if V.mode == "sym":
        if symx.same_term(a, b):
            return True
        return V.eq(np.array([a], dtype=object), np.array([b], dtype=object))
    return abs(float(a) - float(b)) <= 1e-12 * max(1.0, abs(float(a)))


def invariant(V, mc, pes, tag, info):
    atoms = mc.atoms
    calc = atoms.calc
    ctx = mc.context
    u_now = pes.energy(atoms)
    V.prove(_eq(V, ctx.last_potential_energy, u_now), f"reference-energy==U(current):{tag}", info=info)
    rm = c03.remembered_matches(V, mc)
    V.prove(not rm, f"remembered-state-is-current:{tag}", info=info + ":" + ";".join(rm))
    if calc.kind != "stateless":
        if calc.atoms is not None and "energy" in calc.results:
            ch = calc._changes(atoms)
            ok_cfg = ch is None
            V.prove(ok_cfg, f"cached-results-describe-current-configuration:{tag}", info=info + f":cache differs in {ch}")
            if ok_cfg:
                V.prove(_eq(V, calc.results["energy"], u_now), f"cached-energy==U(current):{tag}", info=info)
        lr = ctx.last_results
        if isinstance(lr, dict) and "energy" in lr:
            V.prove(_eq(V, lr["energy"], u_now), f"saved-results==U(current):{tag}", info=info)


def sc_trial(V, driver="Canonical", table="d", n=2, fixed=(), check=False, calc="caching", molecular=False, coin=False):
    info = f"{driver}:{table}:n={n}:calc={calc}:check={check}:mol={molecular}" + (f":fixed={fixed if isinstance(fixed, str) else list(fixed)}" if fixed else "")
    mc, atoms, pes, move, labels, exch = c03.build(V, driver, table, n, fixed, check, calc, molecular, False, coin)
    calcobj = atoms.calc
    invariant(V, mc, pes, "initial", info)
    n0 = calcobj.nevals
    try:
        name, verdict = mcsim.run_trial(mc)
    except (symx.PathAbort, symx.BoundHit, symx.Unsupported, symx.ReplayMismatch):
        raise
    except Exception as ex:  # noqa: BLE001
        V.reach("raised:" + type(ex).__name__)
        return
    v = None if verdict is None else bool(verdict)
    kind = {None: "failed", False: "rejected", True: "accepted"}[v]
    V.reach(kind)
    what = info + ":" + kind
    spent = calcobj.nevals - n0
    if calc != "stateless" and driver != "HamiltonianCanonical":
        V.prove(spent == (0 if v is None else 1), "one-evaluation-per-judged-trial", info=what + f":spent={spent}")
    invariant(V, mc, pes, "after", what)
    # reporting the current energy: right value, no recomputation on caching calculators, no exception
    n1 = calcobj.nevals
    try:
        e_rep = atoms.get_potential_energy()
    except Exception as ex:  # noqa: BLE001
        V.fail("calculator-usable-for-reporting", info=what + ":" + type(ex).__name__)
        return
    V.prove(_eq(V, e_rep, pes.energy(atoms)), "reported-energy==U(current)", info=what)
    if calc != "stateless":
        V.prove(calcobj.nevals == n1, "logging-costs-no-evaluation", info=what + f":extra={calcobj.nevals - n1}")
    # the calculator must remain usable for the next (different) configuration
    if len(atoms) == 0:
        return
    p = atoms.get_positions()
    p[0, 0] = p[0, 0] + 0.125
    atoms.set_positions(p, apply_constraint=False)
    try:
        e_next = atoms.get_potential_energy()
    except Exception as ex:  # noqa: BLE001
        V.fail("calculator-usable-for-next-evaluation", info=what + ":" + type(ex).__name__)
        return
    V.prove(_eq(V, e_next, pes.energy(atoms)), "next-energy==U(next)", info=what)


class _Watch:
    """Observer (public observer protocol) that judges the invariant after every step of a real run."""

    def __init__(self, V, mc, pes, info):
        self.V, self.mc, self.pes, self.info = V, mc, pes, info
        self.interval = 1
        self.k = 0
        self.last_evals = None

    def __call__(self):
        V, mc = self.V, self.mc
        calc = mc.atoms.calc
        tag = f"step{self.k}"
        hist = [None if h[1] is None else bool(h[1]) for h in mc.move_history]
        what = self.info + f":{tag}:history={hist}"
        if self.last_evals is not None and calc.kind != "stateless":
            judged = sum(1 for h in hist if h is not None)
            V.prove(calc.nevals - self.last_evals == judged, "one-evaluation-per-judged-trial", info=what + f":spent={calc.nevals - self.last_evals}:judged={judged}")
        invariant(V, mc, self.pes, "during-run", what)
        n1 = calc.nevals
        e = mc.atoms.get_potential_energy()
        V.prove(_eq(V, e, self.pes.energy(mc.atoms)), "reported-energy==U(current)", info=what)
        if calc.kind != "stateless":
            V.prove(calc.nevals == n1, "logging-costs-no-evaluation", info=what + f":extra={calc.nevals - n1}")
        self.last_evals = calc.nevals
        self.k += 1

    def close(self):
        pass


def sc_history(V, driver="Canonical", table="d", n=2, steps=2, calc="caching", prior_eval=False):
    """A real run through the public entry point from a FRESH simulation (start-up sequence included),
    judged after every step: every accept/reject history of `steps` trials."""
    info = f"history:{driver}:{table}:n={n}:calc={calc}:steps={steps}:prior_eval={prior_eval}"
    mc, atoms, pes, move, labels, exch = c03.build(V, driver, table, n, (), False, calc, False, False, False, validate=False)
    if prior_eval:
        atoms.get_potential_energy()  # the user looked at the energy before starting
    mc.file_manager.attach_observer("watch", _Watch(V, mc, pes, info))
    try:
        mc.run(steps)
    except (symx.PathAbort, symx.BoundHit, symx.Unsupported, symx.ReplayMismatch):
        raise
    except Exception as ex:  # noqa: BLE001
        V.reach("raised:" + type(ex).__name__)
        return
    V.reach("ran")


SCENARIOS = {"trial": sc_trial, "history": sc_history}
_replay = generic_replay(SCENARIOS)


def _emt_demo():
    """The neighbour-list contract on the real thing: ase EMT after a rejected insertion."""
    from ase import Atoms
    from ase.build import bulk
    from ase.calculators.emt import EMT

    from quansino.mc.gcmc import GrandCanonical
    from quansino.moves.displacement import DisplacementMove
    from quansino.moves.exchange import ExchangeMove

    atoms = bulk("Cu", cubic=True)
    atoms.calc = EMT()
    n = len(atoms)
    mc = GrandCanonical(atoms, exchange_atoms=Atoms("Cu"), temperature=300.0, chemical_potential=-60.0, number_of_exchange_particles=n, max_cycles=1, seed=4)
    mc.add_move(ExchangeMove(np.arange(n), bias_towards_insert=1.0), name="ex")
    mc.run(1)
    if mc.move_history[-1][1]:
        return "insertion unexpectedly accepted"
    mc.moves["ex"].probability = 0.0
    mc.add_move(DisplacementMove(np.arange(len(atoms))), name="d")
    try:
        mc.run(1)
    except ValueError as ex:
        return "real ase EMT raises after a rejected insertion: " + str(ex)[:90]
    return "real ase EMT keeps working"


def replay(data):
    ok, detail = _replay(data)
    if ok and data.get("label") == "calculator-usable-for-next-evaluation" and "neighbourlist" in str(data.get("info")):
        try:
            detail += " | " + _emt_demo()
        except Exception as ex:  # noqa: BLE001
            detail += f" | EMT demonstration not run ({type(ex).__name__})"
    return ok, detail


def _plan(tier):
    P = []
    R = ("rejected", "accepted")
    q = tier == "quick"
    for ck in ("caching", "neighbourlist", "stateless"):
        P.append(("trial", dict(driver="Canonical", table="d", n=2, check=(ck == "caching"), calc=ck), R + (("failed",) if ck == "caching" else ())))
        P.append(("trial", dict(driver="Isobaric", table="cell", n=2, check=False, calc=ck), R))
        P.append(("trial", dict(driver="GrandCanonical", table="e", n=2, check=False, calc=ck), R))
    P.append(("trial", dict(driver="Isotension", table="shape", n=1 if q else 2, check=False, calc="caching"), R))
    # constrained atoms that a trial nevertheless moves (a cell move rescales fixed atoms too)
    P.append(("trial", dict(driver="Isobaric", table="cell", n=2, fixed=(0,), check=False, calc="caching"), R))
    P.append(("trial", dict(driver="Canonical", table="d", n=2, fixed="com", check=True, calc="caching"), R + ("failed",)))
    P.append(("trial", dict(driver="Isobaric", table="d+cell", n=2, check=False, calc="caching"), R))
    P.append(("trial", dict(driver="GrandCanonical", table="d", n=2, check=False, calc="neighbourlist"), R))
    P.append(("trial", dict(driver="GrandCanonical", table="e", n=2, check=True, calc="caching"), R + ("failed",)))
    P.append(("trial", dict(driver="Canonical", table="d2", n=2, check=True, calc="caching"), R + ("failed",)))
    P.append(("trial", dict(driver="HamiltonianCanonical", table="h", n=1, check=True, calc="caching"), R + ("failed",)))
    P.append(("trial", dict(driver="GrandCanonical", table="e+e", n=3, check=False, calc="caching", coin=True), R))
    P.append(("history", dict(driver="Canonical", table="d", n=2, steps=2, calc="caching", prior_eval=False), ("ran",)))
    P.append(("history", dict(driver="Canonical", table="d", n=2, steps=2, calc="caching", prior_eval=True), ("ran",)))
    if not q:
        P.append(("history", dict(driver="Canonical", table="d", n=2, steps=3, calc="neighbourlist", prior_eval=True), ("ran",)))
        P.append(("history", dict(driver="GrandCanonical", table="d", n=2, steps=2, calc="caching", prior_eval=False), ("ran",)))
        P.append(("history", dict(driver="Isobaric", table="cell", n=1, steps=1, calc="caching", prior_eval=True), ("ran",)))
        P.append(("trial", dict(driver="GrandCanonical", table="e", n=3, check=False, calc="caching", molecular=True), R))
        P.append(("trial", dict(driver="GrandCanonical", table="e2", n=2, check=False, calc="caching", coin=True), R))
        P.append(("trial", dict(driver="Canonical", table="d", n=3, check=True, calc="neighbourlist"), R + ("failed",)))
        P.append(("trial", dict(driver="Isotension", table="cell", n=2, check=True, calc="neighbourlist"), R + ("failed",)))
    P.append(("trial", dict(driver="Canonical", table="d", n=2, check=False, calc="caching"), (), "one-evaluation-per-judged-trial"))
    return P


def run(rep: Report):
    tier = rep.tier
    opts = {"prove_timeout_ms": 10000 if tier == "quick" else 30000, "fork_timeout_ms": 2000, "seed": rep.seed, "scenario_wall_s": 900 if tier == "quick" else 1200}
    run_plan(rep, _plan(tier), SCENARIOS, opts)
    rep.bounds = {"atoms": "2 (quick) / <=3 (thorough)", "trials": "1 (inductive step; invariant re-established after every verdict)", "calculators": "stateless, caching, neighbour-list contracts", "drivers": "Canonical, Isobaric, Isotension, GrandCanonical (+Hamiltonian in thorough, count clause excepted)"}
    rep.assumptions = ["U is an uninterpreted function of (numbers, positions, cell): equality of energies must hold for every potential", "calculator contracts as in ase.calculators.calculator.Calculator (results rebound, atoms snapshot, recompute iff the system differs) and EMT/EAM/LJ (neighbour list rebuilt only when `numbers` changes)", "thermodynamic parameters concrete"]
    rep.stubs = ["ModelCalc (three contracts) with a ghost evaluation counter", "SymAtoms, SymRNG, symbolic check_move verdicts"]
    rep.outside = ["calculators that mutate `results` in place", "energies other than potential"]
    rep.extra["explanation"] = "bounded model checking of one trial from an arbitrary state satisfying the energy/caching invariant (inductive step), three calculator contracts"
