"""C02 -- acceptance decisions equal the textbook Metropolis rule.

The real `evaluate` of every criteria is executed on symbolic energies / temperatures / cells /
stresses / chemical potentials / masses / uniform draws; the returned decision (a z3 Bool term)
must be equivalent to the textbook rule `u < min(1, A)`; no exception may escape; parameters set
through the public properties must be the ones used.
"""
from __future__ import annotations

import math
import os
import re

import numpy as np
import z3

from .. import shims, symx
from ..runner import Report, generic_replay
from ..symx import E, SB, SR, explore, lift

ID = "C02"
LEVEL = "translation_validation"

OLD_CELLS = {
    "cubic": [[5.0, 0, 0], [0, 5.0, 0], [0, 0, 5.0]],
    "ortho": [[4.0, 0, 0], [0, 5.0, 0], [0, 0, 6.5]],
    "tric": [[5.0, 0, 0], [1.0, 4.0, 0], [0.5, -0.75, 6.0]],
    "lefth": [[0, 4.0, 0.5], [5.0, 0, 0], [0.25, 1.0, 6.0]],  # left-handed (negative determinant), legal in ASE
}


class EnergyCalc:
    """Calculator returning a given potential energy for whatever configuration it is asked about."""

    def __init__(self, energy):
        self.energy = energy
        self.results = {"energy": energy}

    def get_potential_energy(self, atoms=None, force_consistent=False):
        return self.energy

    def get_forces(self, atoms=None):
        raise RuntimeError("forces not needed")


class OneU:
    """Generator stub handing out one uniform number (the same for every call in this trial)."""

    def __init__(self, u):
        self.u = u
        self.calls = 0

    def random(self, size=None):
        self.calls += 1
        return self.u


def _uniform(V):
    if V.mode == "sym":
        u = V.real("u", lo=0, hi=1, hi_strict=True)
    else:
        u = V.real("u", lo=0, hi=1)
    return u


def _atoms(V, n, cell=None, masses=None):
    cls = shims.SymAtoms if V.mode == "sym" else __import__("ase").Atoms
    pos = [[0.3 * i, 0.1 * i, 0.2 * i] for i in range(n)]
    a = cls("H" * n if n else "", positions=pos if n else None, cell=cell if cell is not None else OLD_CELLS["cubic"], pbc=True)
    return a


EPS = 1e-9  # relative band around the acceptance threshold in which neither outcome is demanded
# (constants that the implementation folds in floating point, e.g. 1/3, differ from the exact
# rationals of the specification by ~1e-16 relative; the band absorbs that and nothing gross)


def spec_accept(V, u, X, pref=None, scale=1.0):
    """Textbook rule: accept <=> u < min(1, scale*pref*exp(X)); pref None means 1."""
    if V.mode == "sym":
        ex = SR(E().app("exp", lift(X)))
        A = ex if pref is None else ex * pref
        A = A * scale
        return SB(z3.And(lift(u) < lift(A), lift(u) < 1))
    X = float(X)
    if pref is None:
        pref = 1.0
    pref = float(pref) * scale
    if pref <= 0:
        return False
    L = X + math.log(pref)
    return u < 1.0 if L >= 0 else u < math.exp(L)


def threshold_of(evaluate_with_u):
    """Replay helper: the real criteria's acceptance threshold sup{u in [0,1): accepted}, by bisection
    (the criteria is a pure function of the context and of the one uniform number it draws)."""
    lo, hi = 0.0, 1.0
    if evaluate_with_u(1.0 - 1e-16):
        return 1.0
    if not evaluate_with_u(0.0):
        return 0.0
    for _ in range(60):
        mid = 0.5 * (lo + hi)
        if evaluate_with_u(mid):
            lo = mid
        else:
            hi = mid
    return 0.5 * (lo + hi)


def textbook_threshold(X, pref=None):
    X = float(X)
    pref = 1.0 if pref is None else float(pref)
    if pref <= 0:
        return 0.0
    L = X + math.log(pref)
    return 1.0 if L >= 0 else math.exp(L)


def _textbook(V, d_code, u, X, pref, label, info, threshold=None):
    """d_code must agree with the textbook rule outside the +-EPS band around the threshold."""
    if V.mode != "sym" and threshold is not None:
        want = textbook_threshold(X, pref)
        V.prove(abs(threshold - want) <= 1e-6 * max(want, 1e-300) + 1e-12, label, info=info + f":threshold={threshold:.6g}:textbook={want:.6g}")
        return
    lo = spec_accept(V, u, X, pref, 1.0 - EPS)
    hi = spec_accept(V, u, X, pref, 1.0 + EPS)
    if V.mode == "sym":
        if not isinstance(d_code, (SB, bool, np.bool_)):
            V.fail(label, info=info + ":non-boolean-decision")
            return
        dc = symx.sb(d_code)
        V.prove(SB(z3.And(z3.Implies(symx.sb(lo), dc), z3.Implies(dc, symx.sb(hi)))), label, info=info)
    else:
        dc = bool(d_code)
        V.prove(((not lo) or dc) and ((not dc) or hi), label, info=info)


_LAST_THRESHOLD = {}


def _evaluate(V, crit, ctx, tag):
    """Run the real evaluate; an escaping exception is a violation of the 'never raise' clause."""
    try:
        d = crit.evaluate(ctx)
    except symx.Unsupported:
        raise
    except Exception as ex:  # noqa: BLE001
        V.reach(f"{tag}:raised")
        V.fail("no-exception", info=f"{tag}:{type(ex).__name__}")
        return None
    V.reach(f"{tag}:decided")
    if V.mode != "sym" and isinstance(ctx.rng, OneU):
        rng = ctx.rng

        def ev(uu):
            ctx.rng = OneU(uu)
            try:
                return bool(crit.evaluate(ctx))
            finally:
                ctx.rng = rng

        try:
            _LAST_THRESHOLD[tag] = threshold_of(ev)
        except Exception:  # noqa: BLE001
            _LAST_THRESHOLD.pop(tag, None)
    return d


def _dec_equiv(V, d_code, d_spec, label, info):
    if V.mode == "sym":
        if not isinstance(d_code, (SB, bool, np.bool_)):
            V.fail(label, info=info + ":non-boolean-decision")
            return
        V.prove(SB(symx.sb(d_code) == symx.sb(d_spec)), label, info=info)
    else:
        V.prove(bool(d_code) == bool(d_spec), label, info=info)


def _kB():
    from ase.units import kB

    return kB


# ------------------------------------------------------------------ scenarios
def sc_canonical(V, n=1, via_setter=False):
    from quansino.mc.canonical import Canonical
    from quansino.mc.criteria import CanonicalCriteria

    T = V.pos("T")
    E1, E0 = V.real("E1"), V.real("E0")
    u = _uniform(V)
    atoms = _atoms(V, n)
    atoms.calc = EnergyCalc(E1)
    if via_setter:
        mc = Canonical(atoms, temperature=V.pos("T_init"), seed=1)
        mc.temperature = T
    else:
        mc = Canonical(atoms, temperature=T, seed=1)
    mc.context.last_potential_energy = E0
    mc.context.rng = OneU(u)
    d = _evaluate(V, CanonicalCriteria(), mc.context, "canonical")
    if d is None:
        return
    X = -(E1 - E0) / (T * _kB())
    _textbook(V, d, u, X, None, "decision==textbook", f"canonical:setter={via_setter}", threshold=_LAST_THRESHOLD.get("canonical"))


def sc_hamiltonian(V, n=1, via_setter=False):
    from quansino.mc.canonical import HamiltonianCanonical
    from quansino.mc.criteria import HamiltonianCanonicalCriteria

    T = V.pos("T")
    E1, E0, K0 = V.real("E1"), V.real("E0"), V.real("K0", lo=0)
    u = _uniform(V)
    atoms = _atoms(V, n)
    atoms.calc = EnergyCalc(E1)
    p = V.array("p", (n, 3))
    m = [V.pos(f"m{i}") for i in range(n)]
    if V.mode == "sym":
        atoms.arrays["masses"] = np.array(m, dtype=object)
        atoms.arrays["momenta"] = p
    else:
        atoms.set_masses(m)
        atoms.set_momenta(p, apply_constraint=False)
    if via_setter:
        mc = HamiltonianCanonical(atoms, temperature=V.pos("T_init"), seed=1)
        mc.temperature = T
    else:
        mc = HamiltonianCanonical(atoms, temperature=T, seed=1)
    mc.context.last_potential_energy = E0
    mc.context.last_kinetic_energy = K0
    mc.context.rng = OneU(u)
    d = _evaluate(V, HamiltonianCanonicalCriteria(), mc.context, "hamiltonian")
    if d is None:
        return
    K1 = 0.0
    for i in range(n):
        for k in range(3):
            K1 = K1 + p[i, k] * p[i, k] / (2 * m[i])
    X = -((E1 + K1) - (E0 + K0)) / (T * _kB())
    _textbook(V, d, u, X, None, "decision==textbook", f"hamiltonian:setter={via_setter}", threshold=_LAST_THRESHOLD.get("hamiltonian"))


def _new_cell(V, atoms, old="cubic"):
    """New cell: 9 symbolic entries, non-degenerate and of the same handedness as the old cell
    (cell moves multiply by a deformation gradient of positive determinant)."""
    h = V.array("h", (3, 3))
    sign = 1.0 if np.linalg.det(np.array(OLD_CELLS[old], dtype=float)) > 0 else -1.0
    if V.mode == "sym":
        V.assume(sign * shims.det3(h) > 0)
        atoms.set_cell(h, scale_atoms=False)
        vol_new = atoms.get_volume()
    else:
        if sign * np.linalg.det(h) <= 0:
            raise symx.ReplayMismatch("handedness")
        atoms.set_cell(h, scale_atoms=False)
        vol_new = abs(float(np.linalg.det(h)))
    return h, vol_new


def _log_ratio(V, vn, vo):
    if V.mode == "sym":
        eng = E()
        r = lift(vn) / lift(vo)
        L = eng.app("log", r)
        # true lemma: log(a/b) = log a - log b (lets a refactored implementation match)
        eng.axiom(L == eng.app("log", lift(vn)) - eng.app("log", lift(vo)))
        return SR(L)
    return math.log(vn / vo)


def sc_isobaric(V, n=1, old="cubic", via_setter=False):
    from ase.cell import Cell

    from quansino.mc.criteria import IsobaricCriteria
    from quansino.mc.isobaric import Isobaric

    T, P = V.pos("T"), V.real("P")
    E1, E0 = V.real("E1"), V.real("E0")
    u = _uniform(V)
    atoms = _atoms(V, n, cell=OLD_CELLS[old])
    atoms.calc = EnergyCalc(E1)
    if via_setter:
        mc = Isobaric(atoms, temperature=V.pos("T_init"), pressure=V.real("P_init"), seed=1)
        mc.temperature = T
        mc.pressure = P
    else:
        mc = Isobaric(atoms, temperature=T, pressure=P, seed=1)
    ctx = mc.context
    ctx.last_potential_energy = E0
    ctx.last_cell = atoms.get_cell()
    vo = atoms.get_volume()
    h, vn = _new_cell(V, atoms, old)
    ctx.rng = OneU(u)
    d = _evaluate(V, IsobaricCriteria(), ctx, "isobaric")
    if d is None:
        return
    X = -((E1 - E0) + P * (vn - vo)) / (T * _kB()) + (n + 1) * _log_ratio(V, vn, vo)
    _textbook(V, d, u, X, None, "decision==textbook", f"isobaric:old={old}:setter={via_setter}", threshold=_LAST_THRESHOLD.get("isobaric"))


def sc_isotension(V, n=1, old="cubic", hydro=False, via_setter=False, same_cell=False):
    from quansino.mc.criteria import IsobaricCriteria, IsotensionCriteria
    from quansino.mc.isotension import Isotension

    T, P = V.pos("T"), V.real("P")
    E1, E0 = V.real("E1"), V.real("E0")
    u = _uniform(V)
    atoms = _atoms(V, n, cell=OLD_CELLS[old])
    atoms.calc = EnergyCalc(E1)
    if hydro:
        S = np.eye(3) * P if V.mode != "sym" else np.eye(3).astype(object) * P
    else:
        S = V.array("S", (3, 3))
    if via_setter:
        S0 = V.array("Sinit", (3, 3))
        mc = Isotension(atoms, temperature=V.pos("T_init"), pressure=V.real("P_init"), external_stress=S0, seed=1)
        mc.temperature = T
        mc.pressure = P
        mc.external_stress = S
    else:
        mc = Isotension(atoms, temperature=T, pressure=P, external_stress=S, seed=1)
    ctx = mc.context
    ctx.last_potential_energy = E0
    ctx.last_cell = atoms.get_cell()
    vo = atoms.get_volume()
    if same_cell:
        # the trial left the cell as it was (e.g. a displacement move under the isotension criteria): whatever the
        # strain measure, the strain of "no deformation" is zero, so no stress work and no volume term remain
        ctx.rng = OneU(u)
        d = _evaluate(V, IsotensionCriteria(), ctx, "isotension")
        if d is None:
            return
        X = -(E1 - E0) / (T * _kB())
        _textbook(V, d, u, X, None, "decision==textbook", f"isotension:old={old}:cell-unchanged:setter={via_setter}", threshold=_LAST_THRESHOLD.get("isotension"))
        return
    h, vn = _new_cell(V, atoms, old)
    ctx.rng = OneU(u)
    crit = IsotensionCriteria()
    d = _evaluate(V, crit, ctx, "isotension")
    if d is None:
        return
    info = f"isotension:old={old}:hydro={hydro}:setter={via_setter}"
    if hydro:
        # (b) purely hydrostatic stress: identical to the isobaric decision for the same draw
        d2 = _evaluate(V, IsobaricCriteria(), ctx, "isobaric-twin")
        if d2 is None:
            return
        _dec_equiv(V, d, d2, "hydrostatic==isobaric", info)
        return
    # (a) isobaric exponent plus the external-stress work V0*tr((S-P*1) strain), strain as the criteria computed it
    eps = np.asarray(crit.strain_tensor, dtype=object if V.mode == "sym" else float)
    W = 0.0
    for i in range(3):
        for j in range(3):
            sij = S[i][j] - (P if i == j else 0.0)
            W = W + sij * eps[j][i]
    X = -((E1 - E0) + P * (vn - vo) + vo * W) / (T * _kB()) + (n + 1) * _log_ratio(V, vn, vo)
    _textbook(V, d, u, X, None, "decision==textbook", info, threshold=_LAST_THRESHOLD.get("isotension"))


def sc_grand(V, n=1, delta=1, via_setter=False):
    from ase.units import _e, _hplanck, _Nav, kB

    from quansino.mc.criteria import GrandCanonicalCriteria
    from quansino.mc.gcmc import GrandCanonical

    T, mu = V.pos("T"), V.real("mu")
    E1, E0 = V.real("E1"), V.real("E0")
    vol, m = V.pos("V"), V.pos("m")
    u = _uniform(V)
    atoms = _atoms(V, max(n, 1))
    atoms.calc = EnergyCalc(E1)
    ex = _atoms(V, 1)
    if V.mode == "sym":
        ex.arrays["masses"] = np.array([m], dtype=object)
    else:
        ex.set_masses([m])
    if via_setter:
        mc = GrandCanonical(atoms, exchange_atoms=_atoms(V, 1), temperature=V.pos("T_init"), chemical_potential=V.real("mu_init"), number_of_exchange_particles=n + 3, seed=1)
        mc.temperature = T
        mc.chemical_potential = mu
        mc.number_of_exchange_particles = n
        mc.exchange_atoms = ex
        mc.accessible_volume = vol
    else:
        mc = GrandCanonical(atoms, exchange_atoms=ex, temperature=T, chemical_potential=mu, number_of_exchange_particles=n, seed=1)
        mc.accessible_volume = vol
    ctx = mc.context
    ctx.last_potential_energy = E0
    ctx.particle_delta = delta
    ctx.rng = OneU(u)
    d = _evaluate(V, GrandCanonicalCriteria(), ctx, "grand")
    if d is None:
        return
    # thermal de Broglie wavelength in Angstrom: Lambda^2 * (2 pi m kB T) = h^2, m in amu, kB T in eV
    c = 2 * (shims.npw.pi if V.mode == "sym" else np.pi) * m * kB * T / _Nav * 1e-3 * _e
    if V.mode == "sym":
        # Lambda = sqrt(h^2/c) in metres, times 1e10; sqrt is "the non-negative root" (s>=0, s*s=arg)
        lam = (_hplanck**2 / c).sqrt() * 1e10
    else:
        lam = math.sqrt(_hplanck**2 / c) * 1e10
    info = f"grand:N={n}:delta={delta}:setter={via_setter}"
    if delta == 1:
        pref = vol / (lam * lam * lam * (n + 1))
        X = (mu - (E1 - E0)) / (T * kB)
    else:
        pref = lam * lam * lam * n / vol
        X = (-mu - (E1 - E0)) / (T * kB)
    if n == 0 and delta == -1:
        _dec_equiv(V, d, False if V.mode != "sym" else SB(z3.BoolVal(False)), "decision==textbook", info)
        return
    # the prefactor is assumed to lie in the normal double range (otherwise the float product under/overflows)
    V.assume((pref > 1e-300) & (pref < 1e300) if V.mode == "sym" else (1e-300 < pref < 1e300))
    if V.mode == "sym":
        eng = E()
        # true lemma exp(X + log pref) = exp(X) * pref for pref > 0 (lets a log-domain implementation match)
        Lp = eng.app("log", lift(pref))
        eng.axiom(z3.Implies(lift(pref) > 0, eng.app("exp", lift(X) + Lp) == eng.app("exp", lift(X)) * lift(pref)))
    _textbook(V, d, u, X, pref, "decision==textbook", info, threshold=_LAST_THRESHOLD.get("grand"))


MAGNITUDES = (-2000.0, -800.0, -30.0, 0.0, 30.0, 800.0, 2000.0)


def sc_extreme(V, ensemble="isobaric"):
    """Extreme but legal magnitudes, concretely (finite table, solver-driven choice): the two terms of the
    exponent -- a = -(dE + P dV)/kT and b = (N+1) ln(V'/V) -- each range over +-2000, so every intermediate of an
    implementation that does not work in log space over- or underflows (exp(800) = inf, exp(-800) = 0, inf*0 = nan).
    The decision must still be the textbook one, u < min(1, exp(a + b)), decided here in log space, and nothing may
    be raised.  Exact reals cannot see this: it is a statement about the float code, so it is checked on floats."""
    import math

    from ase import Atoms

    from quansino.mc.criteria import CanonicalCriteria, IsobaricCriteria, IsotensionCriteria

    a = MAGNITUDES[V.choice("a", len(MAGNITUDES))]
    b = MAGNITUDES[V.choice("b", len(MAGNITUDES))] if ensemble != "canonical" else 0.0
    u = (1e-300, 0.5, 1.0 - 1e-12)[V.choice("u", 3)]
    n = 2
    T = 300.0
    kT = T * _kB()
    L0 = 10.0
    atoms = Atoms("H" * n, positions=[[0.3 * i + 1.0, 0.1 * i + 1.0, 0.2 * i + 1.0] for i in range(n)], cell=[L0] * 3, pbc=True)
    E0 = 0.25
    E1 = E0 - a * kT  # with P = 0 the enthalpy term is the energy difference alone
    atoms.calc = EnergyCalc(E1)
    info = f"extreme:{ensemble}:a={a:g}:b={b:g}:u={u:g}"
    if ensemble == "canonical":
        from quansino.mc.canonical import Canonical

        mc = Canonical(atoms, temperature=T, seed=1)
        crit = CanonicalCriteria()
    elif ensemble == "isobaric":
        from quansino.mc.isobaric import Isobaric

        mc = Isobaric(atoms, temperature=T, pressure=0.0, seed=1)
        crit = IsobaricCriteria()
    else:
        from quansino.mc.isotension import Isotension

        mc = Isotension(atoms, temperature=T, pressure=0.0, external_stress=np.zeros((3, 3)), seed=1)
        crit = IsotensionCriteria()
    ctx = mc.context
    ctx.last_potential_energy = E0
    if ensemble != "canonical":
        ctx.last_cell = atoms.get_cell()
        atoms.set_cell([L0 * math.exp(b / (3.0 * (n + 1)))] * 3, scale_atoms=True)
    ctx.rng = OneU(u)
    X = a + b
    if abs(X - math.log(u)) < 1.0 and X < 0:
        V.reach("extreme:near-threshold-skipped")
        return
    try:
        with np.errstate(all="ignore"):
            d = crit.evaluate(ctx)
    except Exception as ex:  # noqa: BLE001
        V.reach("extreme:decided")
        V.fail("no-exception", info=info + ":" + type(ex).__name__)
        return
    V.reach("extreme:decided")
    want = X >= 0 or math.log(u) < X
    V.prove(bool(d) == want, "decision==textbook", info=info + f":got={bool(d)}:want={want}")


SCENARIOS = {
    "extreme": sc_extreme,
    "canonical": sc_canonical,
    "hamiltonian": sc_hamiltonian,
    "isobaric": sc_isobaric,
    "isotension": sc_isotension,
    "grand": sc_grand,
}
replay = generic_replay(SCENARIOS)


def _plan(tier):
    plan = []
    ns = (0, 1, 2) if tier == "quick" else (0, 1, 2, 3, 4)
    olds = ("cubic", "tric", "lefth") if tier == "quick" else ("cubic", "ortho", "tric", "lefth")
    for vs in (False, True):
        plan.append(("canonical", dict(n=1, via_setter=vs), ("canonical:decided",)))
        plan.append(("hamiltonian", dict(n=1 if tier == "quick" else 2, via_setter=vs), ("hamiltonian:decided",)))
    for old in olds:
        for n in ns[1:]:
            plan.append(("isobaric", dict(n=n, old=old, via_setter=False), ("isobaric:decided",)))
        plan.append(("isobaric", dict(n=1, old=old, via_setter=True), ("isobaric:decided",)))
        for hydro in (False, True):
            plan.append(("isotension", dict(n=1, old=old, hydro=hydro, via_setter=False), ("isotension:decided",)))
        plan.append(("isotension", dict(n=2, old=old, hydro=False, via_setter=True), ("isotension:decided",)))
        if old != "lefth":
            # (the float inverse of this particular cell is inexact by one ulp; over exact reals the residue of
            # inv(h) @ h - 1 can be amplified by an arbitrarily large stress, which is rounding, not the criteria)
            plan.append(("isotension", dict(n=1, old=old, hydro=False, via_setter=False, same_cell=True), ("isotension:decided",)))
    for n in ns:
        for delta in (1, -1):
            plan.append(("grand", dict(n=n, delta=delta, via_setter=False), ("grand:decided",)))
    plan.append(("grand", dict(n=1, delta=1, via_setter=True), ("grand:decided",)))
    plan.append(("grand", dict(n=2, delta=-1, via_setter=True), ("grand:decided",)))
    for ens in ("canonical", "isobaric", "isotension"):
        plan.append(("extreme", dict(ensemble=ens), ("extreme:decided",)))
    plan.append(("canonical", dict(n=1, via_setter=False), (), "decision==textbook"))
    plan.append(("grand", dict(n=1, delta=-1, via_setter=False), (), "decision==textbook"))
    return plan


def run(rep: Report):
    from ..runner import run_plan

    tier = rep.tier
    opts = {"prove_timeout_ms": 10000 if tier == "quick" else 60000, "fork_timeout_ms": 3000, "seed": rep.seed}
    run_plan(rep, _plan(tier), SCENARIOS, opts)
    rep.bounds = {"atoms": "0..2 (quick) / 0..4 (thorough), concrete", "particle_delta": "+1/-1", "old_cell": list(OLD_CELLS), "new_cell": "9 symbolic entries, det>0", "numbers": "exact reals; math.exp overflow modelled as OverflowError above ln(DBL_MAX)", "extreme magnitudes (floats, concrete)": "a, b in {0, +-30, +-800, +-2000} x u in {1e-300, 0.5, 1-1e-12} for the canonical, isobaric and isotension criteria, judged in log space"}
    rep.assumptions = ["T>0, u in [0,1), det(new cell)>0, exchange mass>0, accessible volume>0, grand-canonical prefactor within [1e-300,1e300]", "exp/log are uninterpreted with true axioms (positivity, monotonicity, exp(log x)=x, range facts, stated product lemmas)", "float arithmetic modelled over the reals; decisions compared outside a 1e-9 relative band around the threshold (rounding outside the claim)"]
    rep.stubs = ["EnergyCalc: calculator returning a symbolic energy", "OneU: generator returning one symbolic uniform number", "SymAtoms/SymCell: ase.Atoms/Cell on object arrays (volume = |det|)"]
    rep.outside = ["rounding of exp/log", "composite exchanges with |delta|>1 (no formula stated)", "the strain measure used by the isotension criteria (taken from the criteria itself)"]
