"""C14 -- Hamiltonian proposals are reversible and correctly thermalised.

The real Verlet.integrate / HamiltonianDisplacementMove / maxwell_boltzmann_distribution run on
symbolic positions, momenta, masses, time step and an UNINTERPRETED force field F(x) (so the
result holds for every potential).  z3 proves (a) equality with the textbook velocity-Verlet map,
(b) reversibility, (c) the momentum-refresh law, (d) the kinetic-energy bookkeeping.
"""
from __future__ import annotations

import math

import numpy as np
import z3

from .. import shims, symx
from ..runner import Report, generic_replay, run_plan
from ..symx import E, SB, SR, lift

ID = "C14"
LEVEL = "translation_validation"

SYMS = "HOC"


class UFForceCalc:
    """Force field = uninterpreted functions of all coordinates (sym) / fixed anharmonic field (replay)."""

    def __init__(self, mode, n):
        self.mode, self.n = mode, n
        self.results = {}
        self.ncalls = 0
        if mode == "sym":
            self.F = [[z3.Function(f"uf_F{i}{k}", *([z3.RealSort()] * (3 * n + 1))) for k in range(3)] for i in range(n)]

    def forces_of(self, x):
        n = self.n
        if self.mode == "sym":
            args = [lift(v) for v in np.asarray(x, dtype=object).ravel().tolist()]
            out = np.empty((n, 3), dtype=object)
            for i in range(n):
                for k in range(3):
                    out[i, k] = SR(self.F[i][k](*args))
            return out
        x = np.asarray(x, dtype=float)
        f = -1.3 * x - 0.7 * x**3 + 0.2 * np.roll(x, 1, axis=1)
        if n > 1:
            f = f + 0.5 * (x.mean(axis=0) - x)
        return f

    def get_forces(self, atoms=None):
        self.ncalls += 1
        return self.forces_of(atoms.positions)

    def get_potential_energy(self, atoms=None, force_consistent=False):
        return 0.0


def _atoms(V, n, momenta=True):
    x = V.array("x", (n, 3))
    m = [V.real(f"m{i}", lo=0.5, hi=300) for i in range(n)]
    if V.mode == "sym":
        a = shims.SymAtoms(SYMS[:n], positions=np.zeros((n, 3)))
        a.arrays["positions"] = np.array(x, dtype=object)
        a.arrays["masses"] = np.array(m, dtype=object)
        if momenta:
            a.arrays["momenta"] = V.array("p", (n, 3))
    else:
        from ase import Atoms

        a = Atoms(SYMS[:n], positions=x)
        a.set_masses(m)
        if momenta:
            a.set_momenta(V.array("p", (n, 3)))
    a.calc = UFForceCalc(V.mode, n)
    return a, x, m


def _ctx(atoms, rng=None):
    from quansino.mc.contexts import HamiltonianDisplacementContext

    ctx = HamiltonianDisplacementContext(atoms, rng)
    return ctx


def _vv_reference(calc, x, p, m, dt, nsteps):
    """Textbook velocity Verlet: half kick, drift, (new forces), half kick."""
    x = np.array(x, dtype=object if calc.mode == "sym" else float)
    p = np.array(p, dtype=object if calc.mode == "sym" else float)
    mm = np.array(m, dtype=x.dtype)[:, None]
    f = calc.forces_of(x)
    for _ in range(nsteps):
        ph = p + f * dt / 2
        x = x + ph / mm * dt
        f = calc.forces_of(x)
        p = ph + f * dt / 2
    return x, p


def sc_reference(V, n=1, nsteps=1, apply_constraints=True, reassign=False):
    from ase.units import fs

    from quansino.integrators.displacement import Verlet

    atoms, x0, m = _atoms(V, n)
    p0 = np.array(atoms.get_momenta())
    dt = V.real("dt", lo=0, lo_strict=True, hi=20)
    if reassign:
        # the time step and step count are public tunables: set after construction
        integ = Verlet(dt=V.real("dt_init", lo=0, lo_strict=True, hi=20), max_steps=7, apply_constraints=apply_constraints)
        integ.dt = dt * fs
        integ.max_steps = nsteps
    else:
        integ = Verlet(dt=dt, max_steps=nsteps, apply_constraints=apply_constraints)
    integ.integrate(_ctx(atoms))
    xr, pr = _vv_reference(atoms.calc, x0, p0, m, dt * fs, nsteps)
    V.prove(V.eq(atoms.get_positions(), xr, tol=1e-9), "positions==velocity-verlet", info=f"n={n}:steps={nsteps}:ac={apply_constraints}:reassign={reassign}")
    V.prove(V.eq(atoms.get_momenta(), pr, tol=1e-9), "momenta==velocity-verlet", info=f"n={n}:steps={nsteps}:ac={apply_constraints}:reassign={reassign}")
    V.prove(atoms.calc.ncalls == nsteps + 1, "one-force-evaluation-per-step", info=f"steps={nsteps}")
    V.reach("done")


def sc_reversible(V, n=1, nsteps=1, apply_constraints=True):
    from quansino.integrators.displacement import Verlet

    atoms, x0, m = _atoms(V, n)
    p0 = np.array(atoms.get_momenta())
    x0 = np.array(x0)
    dt = V.real("dt", lo=0, lo_strict=True, hi=20)
    integ = Verlet(dt=dt, max_steps=nsteps, apply_constraints=apply_constraints)
    ctx = _ctx(atoms)
    integ.integrate(ctx)
    atoms.set_momenta(-atoms.get_momenta(), apply_constraint=False)
    integ.integrate(ctx)
    info = f"n={n}:steps={nsteps}:ac={apply_constraints}"
    V.prove(V.eq(atoms.get_positions(), x0, tol=1e-7), "reverse-returns-positions", info=info)
    V.prove(V.eq(atoms.get_momenta(), -p0, tol=1e-7), "reverse-returns-negated-momenta", info=info)
    V.reach("done")


def sc_reversible_step(V, n=1, apply_constraints=True):
    """Inductive step: from ANY state (x1,p1) reached after k forward steps, one more forward step
    followed by momentum negation and one step returns (x1,-p1).  Chains to any number of steps."""
    return sc_reversible(V, n=n, nsteps=1, apply_constraints=apply_constraints)


def sc_refresh(V, n=2, forced=False, pbc=False):
    from ase.units import kB

    from quansino.utils.dynamics import maxwell_boltzmann_distribution

    atoms, x0, m = _atoms(V, n, momenta=True)
    if pbc:
        atoms.set_cell([7.0, 8.0, 9.0], scale_atoms=False)
        atoms.pbc = True
    T = V.real("T", lo=0, lo_strict=True, hi=5000)
    if V.mode == "sym":
        rng = shims.SymRNG("mb")
    else:
        rng = shims.ScriptedRNG(V.w)
    ctx = _ctx(atoms, rng)
    ctx.temperature = T
    maxwell_boltzmann_distribution(ctx, forced=forced)
    p = np.asarray(atoms.get_momenta(), dtype=object if V.mode == "sym" else float)
    if V.mode == "sym":
        g = [d for d in E().draws if d["kind"] == "standard_normal"]
        V.prove(len(g) == 1 and np.asarray(g[0]["value"]).shape == (n, 3), "one-normal-draw-per-component", info=f"forced={forced}")
        g = np.asarray(g[0]["value"], dtype=object)
    else:
        g = np.array(shims._deep_float(V.w["draws"][0]["value"]), dtype=float).reshape(n, 3)
    if not forced:
        goals = []
        for i in range(n):
            for k in range(3):
                if V.mode == "sym":
                    pe, ge = lift(p[i, k]), lift(g[i, k])
                    var = lift(m[i] * kB * T)
                    goals.append(z3.And(pe * pe == ge * ge * var, z3.Implies(ge > 0, pe > 0), z3.Implies(ge < 0, pe < 0), z3.Implies(ge == 0, pe == 0)))
                else:
                    goals.append(abs(p[i, k] - g[i, k] * math.sqrt(m[i] * kB * T)) <= 1e-9 * (1 + abs(p[i, k])))
        V.prove(SB(z3.And(*goals)) if V.mode == "sym" else all(goals), "p==g*sqrt(m*kT)", info="unforced")
    else:
        dof = 3 * n
        K = sum(p[i, k] * p[i, k] / (2 * m[i]) for i in range(n) for k in range(3))
        raw = [[g[i, k] * g[i, k] * (m[i] * kB * T) / (2 * m[i]) for k in range(3)] for i in range(n)]
        K0 = sum(sum(r) for r in raw)
        r = 2 * K0 / dof
        if V.mode == "sym":
            # exact law of the code: 2K'/dof * (r + 1e-15) = kT * r  (r = raw kinetic temperature in eV)
            kT = lift(kB * T)
            lhs = lift(2 * K / dof)
            V.prove(SB(lhs * (lift(r) + lift(1e-15)) == kT * lift(r)), "forced-kinetic-temperature", info="forced")
            # ... hence within 1e-10 relative of kT once r >= 1e-4 eV (abstract arithmetic lemma)
            X, R, KT = z3.Reals("lemX lemR lemKT")
            lem = z3.Implies(z3.And(KT > 0, R >= lift(1e-4), X * (R + lift(1e-15)) == KT * R), z3.And(X <= KT, X >= KT * (1 - z3.RealVal("1/10000000000"))))
            V.prove(SB(lem), "forced-kinetic-temperature-band", info="forced")
        else:
            if r < 1e-4:
                raise symx.ReplayMismatch("r too small")
            V.prove(abs(2 * K / dof - kB * T) <= 1e-9 * kB * T, "forced-kinetic-temperature")
    V.reach("done")


def sc_kinetic_bookkeeping(V, n=1, vetoes=0):
    """After the move, the kinetic energy the criteria will use is that of the momenta drawn for the
    attempt that was kept (also when the user's check vetoed earlier attempts), and the trajectory
    kept is the one integrated from those momenta."""
    from ase.units import fs

    from quansino.integrators.displacement import Verlet
    from quansino.moves.displacement import HamiltonianDisplacementMove

    atoms, x0, m = _atoms(V, n, momenta=True)
    x0 = np.array(x0)
    T = V.real("T", lo=0, lo_strict=True, hi=5000)
    rng = shims.SymRNG("mb") if V.mode == "sym" else shims.ScriptedRNG(V.w)
    ctx = _ctx(atoms, rng)
    ctx.temperature = T
    ctx.last_kinetic_energy = V.real("Kold", lo=0)
    dt = V.real("dt", lo=0, lo_strict=True, hi=20)
    move = HamiltonianDisplacementMove(operation=Verlet(dt=dt, max_steps=1))
    captured = []
    orig = move.distribution

    def spy(context):
        orig(context)
        captured.append(np.array(context.atoms.get_momenta()))

    move.distribution = spy
    calls = []

    def check(context):
        calls.append(1)
        return len(calls) > vetoes

    move.check_move = check
    ok = move(ctx)
    V.prove(bool(ok), "move-succeeds")
    V.prove(len(captured) >= 1, "momenta-refreshed")
    if not captured:
        return
    pf = captured[-1]
    Kf = sum(pf[i, k] * pf[i, k] / (2 * m[i]) for i in range(n) for k in range(3))
    info = f"n={n}:vetoes={vetoes}"
    V.prove(V.eq(np.array([ctx.last_kinetic_energy]), np.array([Kf]), tol=1e-9), "kinetic-energy-of-fresh-momenta", info=info)
    xr, pr = _vv_reference(atoms.calc, x0, pf, m, dt * fs, 1)
    V.prove(V.eq(atoms.get_positions(), xr, tol=1e-9), "kept-trajectory-starts-from-fresh-momenta", info=info)
    V.prove(V.eq(atoms.get_momenta(), pr, tol=1e-9), "kept-momenta-from-fresh-momenta", info=info)
    V.reach("done")


SCENARIOS = {
    "reference": sc_reference,
    "reversible": sc_reversible,
    "reversible_step": sc_reversible_step,
    "refresh": sc_refresh,
    "kinetic": sc_kinetic_bookkeeping,
}
replay = generic_replay(SCENARIOS)


def _plan(tier):
    plan = []
    ns = (1,) if tier == "quick" else (1, 2)
    for n in ns:
        for steps in ((1, 2) if n == 1 else (1,)):  # two atoms x two steps exceeds what z3 decides in the budget
            for ac in (True, False):
                plan.append(("reference", dict(n=n, nsteps=steps, apply_constraints=ac, reassign=False), ("done",)))
        plan.append(("reference", dict(n=n, nsteps=1, apply_constraints=True, reassign=True), ("done",)))
        if n == 1:
            plan.append(("reference", dict(n=n, nsteps=2, apply_constraints=False, reassign=True), ("done",)))
        for ac in ((True, False) if n == 1 else (False,)):  # two atoms with the constraint branch: beyond z3 within budget
            plan.append(("reversible", dict(n=n, nsteps=1, apply_constraints=ac), ("done",)))
        if tier != "quick" and n == 1:
            plan.append(("reversible", dict(n=n, nsteps=2, apply_constraints=False), ("done",)))
    plan.append(("refresh", dict(n=1 if tier == "quick" else 2, forced=False), ("done",)))
    plan.append(("refresh", dict(n=2, forced=False, pbc=True), ("done",)))
    plan.append(("refresh", dict(n=1, forced=True), ("done",)))
    plan.append(("refresh", dict(n=2, forced=True), ("done",)))  # two different (symbolic) masses
    for v in (0, 1, 2):
        plan.append(("kinetic", dict(n=1, vetoes=v), ("done",)))
    plan.append(("reference", dict(n=1, nsteps=1, apply_constraints=True, reassign=False), (), "momenta==velocity-verlet"))
    plan.append(("kinetic", dict(n=1, vetoes=1), (), "kinetic-energy-of-fresh-momenta"))
    return plan


def run(rep: Report):
    tier = rep.tier
    opts = {"prove_timeout_ms": 20000 if tier == "quick" else 120000, "fork_timeout_ms": 3000, "seed": rep.seed}
    run_plan(rep, _plan(tier), SCENARIOS, opts)
    rep.bounds = {"atoms": "1 (quick) / <=2 (thorough)", "integration steps": "<=2 direct (2-step reversal only without the constraint branch); the 1-step reversal from an arbitrary state is the inductive step for any number, and the 2-step equality with the textbook map covers the loop-carried forces", "force field": "uninterpreted functions of all coordinates (any potential)"}
    rep.assumptions = ["masses in [0.5,300], dt in (0,20] fs, T in (0,5000] K", "floats as exact reals ('up to rounding' clauses proved exactly)", "forced refresh: raw kinetic temperature >= 1e-4 eV"]
    rep.stubs = ["UFForceCalc: forces are uninterpreted functions F_ik(x)", "SymRNG: standard_normal draws are unconstrained reals tagged N(0,1)", "SymAtoms"]
    rep.outside = ["order of accuracy of the energy error as a numerical statement (follows from equality with the textbook velocity-Verlet map)", "stability range", "normality of numpy's standard_normal"]
