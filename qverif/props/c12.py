"""C12 -- constraints on the atoms are respected.

One-trial induction: with FixAtoms (every subset fixed) or FixCom attached, one real trial of a
displacement / composite / rotation / Hamiltonian move, or one real force-bias step, is executed
on symbolic positions, momenta, draws, forces and verdicts; rows of fixed atoms must be
term-identical afterwards and a fixed centre of mass must not move, whatever the verdict.
FixRot: for a family of concrete non-collinear geometries and masses and ALL momenta (symbolic),
the adjusted momenta have zero total angular momentum and unchanged total linear momentum.
"""
from __future__ import annotations

import numpy as np
import z3

from .. import mcsim, shims, symx
from ..runner import Report, generic_replay, run_plan
from ..symx import E, SB, SR, lift

ID = "C12"
LEVEL = "model_checking"

MASSES = [1.0, 16.0, 12.0, 2.0]  # dyadic: float sums of masses are exact


def _constrain(V, atoms, kind):
    from ase.constraints import FixAtoms, FixCom

    n = len(atoms)
    if kind == "fixcom":
        atoms.set_constraint(FixCom())
        return []
    mask = [bool(V.choice(f"fix{i}", 2)) for i in range(n)]
    fixed = [i for i in range(n) if mask[i]]
    if fixed:
        atoms.set_constraint(FixAtoms(indices=fixed))
    return fixed


def _com(V, atoms):
    m = np.array(MASSES[: len(atoms)])
    p = np.asarray(atoms.positions, dtype=object if V.mode == "sym" else float)
    return [sum(m[i] * p[i, k] for i in range(len(atoms))) for k in range(3)]


def _judge(V, atoms, kind, fixed, pos0, com0, info):
    pos1 = np.asarray(atoms.positions, dtype=object if V.mode == "sym" else float)
    if kind == "fixcom":
        com1 = _com(V, atoms)
        V.prove(V.eq(np.array(com1, dtype=pos1.dtype), np.array(com0, dtype=pos1.dtype), tol=1e-9), "centre-of-mass-fixed", info=info)
    else:
        for i in fixed:
            V.prove(mcsim.same(V, pos1[i], pos0[i]), "fixed-atoms-do-not-move", info=info + f":atom={i}")


def sc_mc(V, table="d", n=2, kind="fixatoms", check=False):
    info = f"mc:{table}:n={n}:{kind}:check={check}"
    atoms = mcsim.make_atoms(V, n, momenta=(table == "h"), extras=False, masses=MASSES[:n])
    fixed = _constrain(V, atoms, kind)
    pes = mcsim.PES(V)
    atoms.calc = mcsim.ModelCalc("caching", pes)
    driver = "HamiltonianCanonical" if table == "h" else "Canonical"
    mc = mcsim.make_driver(V, driver, atoms)
    mcsim.install_rng(mc, mcsim.make_rng(V))
    if table == "rot":
        from quansino.moves.displacement import DisplacementMove
        from quansino.operations.displacement import Rotation

        from . import c10

        if V.mode == "sym":
            shims.SymAtoms.euler_rotate = c10._sym_euler_rotate
        move = DisplacementMove(np.zeros(n, dtype=int), Rotation())
        if check:
            move.max_attempts = 2
            move.check_move = mcsim.symbolic_check(V, "r")
    else:
        labels = np.arange(n) if table != "d2" else np.arange(n)
        move = mcsim.make_move(V, table, labels, n, check=check)
    if hasattr(move, "moves"):
        from quansino.mc.criteria import CanonicalCriteria

        mc.add_move(move, criteria=CanonicalCriteria(), name="m")
    else:
        mc.add_move(move, name="m")
    mc.validate_simulation()
    if table == "h":
        mc.context.last_kinetic_energy = atoms.get_kinetic_energy()
    pos0 = np.asarray(atoms.positions, dtype=object if V.mode == "sym" else float).copy()
    com0 = _com(V, atoms)
    name, verdict = mcsim.run_trial(mc)
    v = None if verdict is None else bool(verdict)
    V.reach({None: "failed", False: "rejected", True: "accepted"}[v])
    _judge(V, atoms, kind, fixed, pos0, com0, info + ":" + str(v))


class _FCalc:
    def __init__(self, F):
        self.F = F
        self.results = {}

    def get_forces(self, atoms=None):
        return self.F.copy()

    def get_potential_energy(self, atoms=None, force_consistent=False):
        return 0.0


def sc_forcebias(V, n=2, kind="fixatoms", shaped_masses=False):
    from quansino.mc.fbmc import ForceBias

    info = f"fb:n={n}:{kind}:shaped={shaped_masses}"
    atoms = mcsim.make_atoms(V, n, momenta=False, extras=False, masses=MASSES[:n])
    fixed = _constrain(V, atoms, kind)
    F = np.zeros((n, 3), dtype=object if V.mode == "sym" else float)
    F[n - 1, 1] = V.real("f")
    atoms.calc = _FCalc(F)
    fb = ForceBias(atoms, delta=V.real("delta", lo=0, lo_strict=True, hi=2), temperature=300.0, seed=2)
    if shaped_masses:
        # scaling masses chosen by the user (public update_masses), different from the real masses
        fb.update_masses(np.array([[1.0, 4.0, 16.0], [2.0, 8.0, 32.0], [3.0, 5.0, 7.0]][:n]))
    if V.mode == "sym":
        E().no_axioms = ("exp",)
        calls = [0]
        orig = fb.get_zeta

        def gz():
            calls[0] += 1
            if calls[0] > 2:
                raise symx.PathAbort()
            return orig()

        fb.get_zeta = gz
    fb._rng = mcsim.make_rng(V)
    pos0 = np.asarray(atoms.positions, dtype=object if V.mode == "sym" else float).copy()
    com0 = _com(V, atoms)
    fb.step()
    V.reach("stepped")
    _judge(V, atoms, kind, fixed, pos0, com0, info)


GEOMS = {
    "water-rotated": ("OHH", [[0.13, -0.2, 0.31], [0.95, 0.12, 0.55], [-0.21, 0.71, 0.9]], [15.999, 1.008, 1.008]),
    "asym-cluster": ("CHONS", [[0.0, 0.1, -0.2], [1.1, 0.3, 0.25], [-0.4, 1.3, 0.6], [0.7, -0.9, 1.4], [-1.2, -0.5, -0.8]], [12.011, 1.008, 15.999, 14.007, 32.06]),
    "planar-triangle": ("CuAgAu", [[0.0, 0.0, 0.0], [2.1, 0.4, 0.0], [0.3, 1.7, 0.0]], [63.546, 107.87, 196.97]),
    "heavy-light": ("PtH3", [[0.2, 0.1, 0.0], [1.6, 0.0, 0.3], [-0.5, 1.4, -0.2], [0.1, -0.7, 1.5]], [195.08, 1.008, 2.014, 3.016]),
}


def sc_fixrot(V, geom="water-rotated"):
    from ase import Atoms

    from quansino.constraints import FixRot

    syms, pos, masses = GEOMS[geom]
    atoms = Atoms(syms, positions=pos)
    atoms.set_masses(masses)
    n = len(atoms)
    p = V.array("p", (n, 3))
    mom = np.array(p, dtype=object if V.mode == "sym" else float)
    mom0 = mom.copy()
    FixRot().adjust_momenta(atoms, mom)
    r = atoms.positions - atoms.get_center_of_mass()
    L = [sum(r[i, (k + 1) % 3] * mom[i, (k + 2) % 3] - r[i, (k + 2) % 3] * mom[i, (k + 1) % 3] for i in range(n)) for k in range(3)]
    dP = [sum(mom[i, k] - mom0[i, k] for i in range(n)) for k in range(3)]
    scale = float(np.abs(r).max())
    info = f"fixrot:{geom}"
    if V.mode == "sym":
        # L and dP are linear forms in the momenta: they vanish for ALL momenta iff every coefficient does.
        syms_ = [lift(x) for x in np.asarray(p, dtype=object).ravel().tolist()]
        zero = [(s, z3.RealVal(0)) for s in syms_]

        def coeffs(expr):
            e = lift(expr)
            out = []
            for j, s in enumerate(syms_):
                sub = [(t, z3.RealVal(1) if k == j else z3.RealVal(0)) for k, t in enumerate(syms_)]
                v = z3.simplify(z3.substitute(e, *sub))
                out.append(float(symx.Fraction(v.numerator_as_long(), v.denominator_as_long())))
            # linearity witness: value at (2,2,...,2) equals twice the sum of coefficients
            two = z3.simplify(z3.substitute(e, *[(t, z3.RealVal(2)) for t in syms_]))
            lin = abs(float(symx.Fraction(two.numerator_as_long(), two.denominator_as_long())) - 2 * sum(out)) <= 1e-9 * (1 + abs(sum(out)))
            return out, lin

        worstL, worstP, linear = 0.0, 0.0, True
        for k in range(3):
            c, lin = coeffs(L[k])
            linear = linear and lin
            worstL = max(worstL, max(abs(x) for x in c))
            c, lin = coeffs(dP[k])
            linear = linear and lin
            worstP = max(worstP, max(abs(x) for x in c))
        V.prove(linear, "adjustment-linear-in-momenta", info=info)
        V.prove(worstL <= 1e-9 * scale, "zero-total-angular-momentum", info=info + f":max-coefficient={worstL:.3e}")
        V.prove(worstP <= 1e-9, "total-linear-momentum-unchanged", info=info + f":max-coefficient={worstP:.3e}")
    else:
        pm = float(np.abs(mom0).max()) + 1e-30
        V.prove(max(abs(float(x)) for x in L) <= 1e-8 * scale * pm * n, "zero-total-angular-momentum", info=info)
        V.prove(max(abs(float(x)) for x in dP) <= 1e-8 * pm * n, "total-linear-momentum-unchanged", info=info)
    V.reach("done")


SCENARIOS = {"mc": sc_mc, "forcebias": sc_forcebias, "fixrot": sc_fixrot}
replay = generic_replay(SCENARIOS)


def _plan(tier):
    q = tier == "quick"
    R = ("rejected", "accepted")
    P = []
    for kind in ("fixatoms", "fixcom"):
        P.append(("mc", dict(table="d", n=2, kind=kind, check=True), R + ("failed",)))
        P.append(("mc", dict(table="d2", n=2, kind=kind, check=False), R))
        P.append(("mc", dict(table="rot", n=2, kind=kind, check=False), R))
        P.append(("mc", dict(table="h", n=2, kind=kind, check=True), R + ("failed",)))
        P.append(("forcebias", dict(n=2, kind=kind), ("stepped",)))
        P.append(("forcebias", dict(n=2, kind=kind, shaped_masses=True), ("stepped",)))
    for g in GEOMS:
        P.append(("fixrot", dict(geom=g), ("done",)))
    if not q:
        for kind in ("fixatoms", "fixcom"):
            P.append(("mc", dict(table="d", n=3, kind=kind, check=True), R + ("failed",)))
            P.append(("mc", dict(table="d+d", n=3, kind=kind, check=False), R))
            P.append(("mc", dict(table="rot", n=3, kind=kind, check=True), R + ("failed",)))
            P.append(("forcebias", dict(n=3, kind=kind), ("stepped",)))
    P.append(("mc", dict(table="d", n=2, kind="fixatoms", check=False), (), "fixed-atoms-do-not-move"))
    return P


def run(rep: Report):
    tier = rep.tier
    opts = {"prove_timeout_ms": 15000 if tier == "quick" else 60000, "fork_timeout_ms": 2000, "seed": rep.seed, "scenario_wall_s": 900 if tier == "quick" else 1500}
    run_plan(rep, _plan(tier), SCENARIOS, opts)
    rep.bounds = {"atoms": "2 (quick) / 3 (thorough)", "fixed subsets": "all subsets (solver-driven enumeration)", "moves": "d, d*2, d+d, rotation of a molecule, Hamiltonian (Verlet 1 step), one force-bias step (rejection loop unwound 2x)", "FixRot geometries": list(GEOMS)}
    rep.assumptions = ["masses dyadic in the FixCom scenarios (exact float sums); PES/forces uninterpreted", "FixRot: geometry and masses concrete (LAPACK eigen-decomposition), momenta symbolic; the adjustment is linear in the momenta, so its coefficient matrix decides all momenta at once (tolerance 1e-9 relative to the geometry scale)", "ase euler_rotate by contract (rigid rotation)"]
    rep.stubs = ["SymAtoms with real ase FixAtoms/FixCom", "SymRNG, ModelCalc, symbolic check verdicts"]
    rep.outside = ["FixRot for symbolic geometries (degree-6 algebra through eigh)", "constraints other than FixAtoms/FixCom/FixRot", "several steps directly (each trial starts from an arbitrary state, so the step is inductive)"]
    rep.extra["explanation"] = "bounded model checking of one trial/step under constraints from an arbitrary state (inductive step) + linear-form analysis of FixRot for all momenta"
