"""C03 -- a rejected or failed trial leaves the system exactly as it was.

One-trial induction: from a freshly validated simulation whose state is arbitrary (symbolic
positions, momenta, charges, custom arrays; every labeling; symbolic draws, energies and user-check
verdicts) one real `MonteCarlo.step()` trial is executed.  If its verdict is False (rejected) or
None (not completed) the atoms must be term-for-term (bit-for-bit) the pre-trial atoms, the same
atoms constrained, and no bookkeeping of the abandoned trial may remain.  After any verdict the
bookkeeping invariant must hold again, which makes the step inductive over histories.
"""
from __future__ import annotations

import numpy as np

from .. import mcsim, shims, symx
from ..runner import Report, generic_replay, run_plan

ID = "C03"
LEVEL = "model_checking"


def _moves_of(move):
    return list(getattr(move, "moves", [move]))


def bookkeeping(mc):
    """Everything that must be empty / aligned between trials (the representation invariant)."""
    bad = []
    ctx = mc.context
    for attr in ("_added_indices", "_deleted_indices", "_moving_indices"):
        if hasattr(ctx, attr) and False:
            pass
    if hasattr(ctx, "particle_delta"):
        if ctx.particle_delta != 0:
            bad.append(f"particle_delta={ctx.particle_delta}")
        if len(ctx._added_indices) or len(ctx._deleted_indices):
            bad.append("pending added/deleted indices")
        if len(ctx._added_atoms) or len(ctx._deleted_atoms):
            bad.append("pending added/deleted atoms")
    for st in mc.moves.values():
        for m in _moves_of(st.move):
            for attr in ("to_displace_labels", "to_add_atoms", "to_delete_label"):
                if getattr(m, attr, None) is not None:
                    bad.append(f"{type(m).__name__}.{attr} left set")
            if hasattr(m, "labels") and len(m.labels) != len(mc.atoms):
                bad.append(f"{type(m).__name__}.labels length {len(m.labels)} != {len(mc.atoms)} atoms")
    return bad


def remembered_matches(V, mc):
    ctx = mc.context
    bad = []
    if hasattr(ctx, "last_positions") and not mcsim.same(V, ctx.last_positions, mc.atoms.positions):
        bad.append("last_positions != positions")
    if hasattr(ctx, "last_cell") and not mcsim.same(V, np.asarray(ctx.last_cell.array if hasattr(ctx.last_cell, "array") else ctx.last_cell), mc.atoms.cell.array):
        bad.append("last_cell != cell")
    if hasattr(ctx, "last_momenta") and not mcsim.same(V, ctx.last_momenta, mc.atoms.get_momenta()):
        bad.append("last_momenta != momenta")
    return bad


def build(V, driver="Canonical", table="d", n=2, fixed=(), check=False, calc="caching", molecular=False, preselect=False, coin=False, nexch=None, validate=True):
    """Simulation in an arbitrary validated state (shared with C04/C05/C12)."""
    fixcom = fixed == "com"
    atoms = mcsim.make_atoms(V, n, momenta=True, extras=True, fixed=() if fixcom else fixed)
    if fixcom:
        from ase.constraints import FixCom

        atoms.set_constraint(FixCom())  # couples all atoms: a displaced atom shifts every other one
    pes = mcsim.PES(V)
    atoms.calc = mcsim.ModelCalc(calc, pes)
    labels = mcsim.labels_for(V, n, -1, 1 if n <= 2 else 2, molecular=molecular)
    exch = mcsim.exchange_species(V, 2 if molecular else 1) if driver == "GrandCanonical" else None
    mc = mcsim.make_driver(V, driver, atoms, exchange=exch, nexch=int(len(np.unique(labels[labels >= 0]))))
    rng = mcsim.make_rng(V)
    mcsim.install_rng(mc, rng)
    move = mcsim.make_move(V, table, labels, n, check=check)
    if coin:
        mc.add_move(move, criteria=mcsim.CoinCriteria(), name="m")
    elif hasattr(move, "moves"):
        from quansino.mc.criteria import CanonicalCriteria, IsobaricCriteria

        mc.add_move(move, criteria=IsobaricCriteria() if "cell" in table else CanonicalCriteria(), name="m")
    else:
        mc.add_move(move, name="m")
    if validate:
        mc.validate_simulation()
    if driver == "HamiltonianCanonical":
        mc.context.last_kinetic_energy = atoms.get_kinetic_energy()
    if preselect:
        ms = _moves_of(move)
        ul = [int(x) for x in np.unique(labels[labels >= 0])]
        if ul and hasattr(ms[0], "to_displace_labels") and table.startswith("d"):
            ms[0].to_displace_labels = ul[V.choice("pre", len(ul))]
        elif ul and table.startswith("e"):
            if V.choice("pre_kind", 2) == 0:
                ms[0].to_delete_label = ul[V.choice("pre", len(ul))]
            else:
                ms[0].to_add_atoms = exch
    return mc, atoms, pes, move, labels, exch


def sc_trial(V, driver="Canonical", table="d", n=2, fixed=(), check=False, calc="caching", molecular=False, preselect=False, coin=False, nexch=None, warm=0):
    sig = f"{driver}:{table}:n={n}:fixed={fixed if isinstance(fixed, str) else list(fixed)}:check={check}:mol={molecular}:pre={preselect}" + (f":after-{warm}-earlier-trial(s)" if warm else "")
    mc, atoms, pes, move, labels, exch = build(V, driver, table, n, fixed, check, calc, molecular, preselect, coin, nexch)
    # base case of the induction: the invariant holds before the first trial
    b0 = bookkeeping(mc) if not preselect else []
    V.prove(not b0, "invariant-initially", info=sig + ":" + ";".join(b0))
    for _ in range(warm):
        # earlier trials of any outcome: state the bookkeeping invariant does not name (anything a trial may leave
        # behind in the context or the moves) must not change what a later rejection restores
        try:
            _, v0 = mcsim.run_trial(mc)
        except (symx.PathAbort, symx.BoundHit, symx.Unsupported, symx.ReplayMismatch):
            raise
        except Exception as ex:  # noqa: BLE001
            V.reach("raised:" + type(ex).__name__)
            return
        V.reach("earlier-" + {None: "failed", False: "rejected", True: "accepted"}[None if v0 is None else bool(v0)])
    snap = mcsim.snapshot(V, atoms)
    lab_snap = [(np.array(m.labels).copy(), np.array(m.unique_labels).copy()) for st in mc.moves.values() for m in _moves_of(st.move) if hasattr(m, "labels")]
    nexch0 = getattr(mc.context, "number_of_exchange_particles", None)
    try:
        name, verdict = mcsim.run_trial(mc)
    except (symx.PathAbort, symx.BoundHit, symx.Unsupported, symx.ReplayMismatch):
        raise
    except Exception as ex:  # noqa: BLE001
        # a trial that raises is neither rejected nor failed: outside this property's statement; counted only
        V.reach("raised:" + type(ex).__name__)
        return
    v = None if verdict is None else bool(verdict)
    kind = {None: "failed", False: "rejected", True: "accepted"}[v]
    V.reach(kind)
    what = sig + ":" + kind
    if v is not True:
        diff = mcsim.restored(V, atoms, snap)
        V.prove(not diff, "atoms-restored-exactly", info=what + ":" + ";".join(diff))
        labs = [(np.array(m.labels), np.array(m.unique_labels)) for st in mc.moves.values() for m in _moves_of(st.move) if hasattr(m, "labels")]
        same_labels = len(labs) == len(lab_snap) and all(np.array_equal(a[0], b[0]) and np.array_equal(a[1], b[1]) for a, b in zip(labs, lab_snap))
        V.prove(same_labels, "labels-unchanged", info=what)
        if nexch0 is not None:
            V.prove(mc.context.number_of_exchange_particles == nexch0, "particle-count-unchanged", info=what)
    b1 = bookkeeping(mc)
    if v is True:
        # label alignment after an ACCEPTED exchange is property C05's subject, not this one's
        b1 = [b for b in b1 if "labels length" not in b]
    V.prove(not b1, "nothing-leaks-into-next-trial", info=what + ":" + ";".join(b1))
    r1 = remembered_matches(V, mc)
    V.prove(not r1, "remembered-state-is-current", info=what + ":" + ";".join(r1))


SCENARIOS = {"trial": sc_trial}
replay = generic_replay(SCENARIOS)


def _plan(tier):
    P = []
    R = ("rejected", "accepted")
    q = tier == "quick"
    n = 2 if q else 3
    # canonical family
    P.append(("trial", dict(driver="Canonical", table="d", n=n, fixed=(), check=False), R))
    P.append(("trial", dict(driver="Canonical", table="d", n=2, fixed=(0,), check=True), R + ("failed",)))
    P.append(("trial", dict(driver="Canonical", table="d2", n=2, fixed=(), check=True), R + ("failed",)))
    P.append(("trial", dict(driver="Canonical", table="d", n=2, fixed="com", check=True), R + ("failed",)))
    P.append(("trial", dict(driver="Isobaric", table="cell", n=2, fixed="com", check=True), R + ("failed",)))
    P.append(("trial", dict(driver="Canonical", table="d+d", n=2, fixed=(), check=False, preselect=True), R))
    P.append(("trial", dict(driver="Canonical", table="d", n=3, fixed=(), check=False, molecular=True), R))
    P.append(("trial", dict(driver="HamiltonianCanonical", table="h", n=1 if q else 2, fixed=(), check=True), R + ("failed",)))
    # cell moves
    P.append(("trial", dict(driver="Isobaric", table="cell", n=2, fixed=(), check=True), R + ("failed",)))
    P.append(("trial", dict(driver="Isobaric", table="d+cell", n=2, fixed=(), check=False), R))
    P.append(("trial", dict(driver="Isotension", table="shape", n=1 if q else 2, fixed=(), check=False), R))
    # exchange
    P.append(("trial", dict(driver="GrandCanonical", table="e", n=2, fixed=(), check=True), R + ("failed",)))
    P.append(("trial", dict(driver="GrandCanonical", table="e", n=n, fixed=(1,), check=False), R))
    P.append(("trial", dict(driver="GrandCanonical", table="e", n=3, fixed=(), check=False, molecular=True), R))
    P.append(("trial", dict(driver="GrandCanonical", table="e2", n=2, fixed=(), check=False, coin=True), R))
    P.append(("trial", dict(driver="GrandCanonical", table="e+e", n=2, fixed=(), check=False, coin=True), R))
    P.append(("trial", dict(driver="GrandCanonical", table="e+d", n=2, fixed=(), check=False, coin=True), R))
    P.append(("trial", dict(driver="GrandCanonical", table="e+e", n=2, fixed=(), check=True, coin=True), R + ("failed",)))
    P.append(("trial", dict(driver="GrandCanonical", table="swap", n=2, fixed=(), check=False, coin=True), R))
    P.append(("trial", dict(driver="GrandCanonical", table="d", n=2, fixed=(), check=False), R))
    P.append(("trial", dict(driver="GrandCanonical", table="e", n=2, fixed=(), check=False, preselect=True), R))
    # two-trial histories (an accepted, rejected or failed trial first)
    P.append(("trial", dict(driver="GrandCanonical", table="e", n=2, fixed=(1,), check=False, coin=True, warm=1), R + ("earlier-accepted", "earlier-rejected")))
    P.append(("trial", dict(driver="Canonical", table="d", n=2, fixed=(0,), check=True, warm=1), R + ("failed", "earlier-accepted", "earlier-rejected", "earlier-failed")))
    P.append(("trial", dict(driver="Isobaric", table="cell", n=1, fixed=(), check=False, coin=True, warm=1), R + ("earlier-accepted", "earlier-rejected")))
    if not q:
        P.append(("trial", dict(driver="GrandCanonical", table="e", n=3, fixed=(2,), check=False, coin=True, warm=1), R + ("earlier-accepted", "earlier-rejected")))
        P.append(("trial", dict(driver="GrandCanonical", table="e+e", n=2, fixed=(1,), check=True, coin=True, warm=1), R + ("failed", "earlier-accepted")))
        P.append(("trial", dict(driver="Isobaric", table="cell", n=2, fixed=(), check=True, coin=True, warm=1), R + ("failed", "earlier-accepted", "earlier-rejected", "earlier-failed")))
        P.append(("trial", dict(driver="GrandCanonical", table="e2", n=3, fixed=(0,), check=True, coin=True), R))
        P.append(("trial", dict(driver="Canonical", table="d2", n=3, fixed=(2,), check=True), R + ("failed",)))
        P.append(("trial", dict(driver="Isotension", table="cell", n=2, fixed=(0,), check=True), R + ("failed",)))
        for ck in ("stateless", "neighbourlist"):
            P.append(("trial", dict(driver="Canonical", table="d", n=2, fixed=(), check=False, calc=ck), R))
    P.append(("trial", dict(driver="GrandCanonical", table="e", n=2, fixed=(), check=False), (), "atoms-restored-exactly"))
    return P


def run(rep: Report):
    tier = rep.tier
    opts = {"prove_timeout_ms": 10000 if tier == "quick" else 30000, "fork_timeout_ms": 2000, "seed": rep.seed, "scenario_wall_s": 900 if tier == "quick" else 1200}
    run_plan(rep, _plan(tier), SCENARIOS, opts)
    rep.bounds = {"atoms": "2 (quick) / 3 (thorough)", "labels": "every labeling in [-1,1]^n (n<=2) / [-1,2]^n, plus a diatomic-molecule labeling", "trials": "1 (inductive step from an arbitrary validated state); 2-trial histories (any first outcome) for exchange+FixAtoms, displacement+FixAtoms+veto, cell+veto", "user check": "max_attempts=2, every verdict sequence", "drivers": "Canonical, HamiltonianCanonical, Isobaric, Isotension, GrandCanonical", "tables": "d, d*2, d+d, cell, shape, d+cell, e, e*2, e+e, e+d, h; pre-selected targets"}
    rep.assumptions = ["bit-for-bit = identical z3 terms (a restored array must be a copy of what was saved, not an arithmetic reconstruction)", "potential energy = uninterpreted function of the configuration; thermodynamic parameters concrete", "calculator contract: ase Calculator result caching (quick) / + stateless, neighbour-list models (thorough)"]
    rep.stubs = ["SymAtoms (ase.Atoms on object arrays)", "SymRNG", "ModelCalc over an uninterpreted PES", "symbolic check_move verdicts", "CoinCriteria for composite exchange tables (the shipped criteria has no formula for |delta|>1)"]
    rep.outside = ["constraints other than FixAtoms on exchange drivers (ASE refuses deletion with them)", "user check_move with side effects", "more than one trial directly (covered inductively through the invariant)"]
    rep.extra["explanation"] = "bounded model checking of one Monte Carlo trial from an arbitrary state satisfying the bookkeeping invariant (inductive step)"
