"""C01 -- ensembles reproduce exact averages of solvable systems.

A limit over an infinite chain is not an SMT formula; what the solver decides on the real code is
the standard sufficient condition, detailed balance with respect to the ensemble density pi:

 O1  one REAL trial of each ensemble (real driver bookkeeping, real shipped move, default criteria):
     the decision taken equals  u < min(1, exp(W(y) - W(x)))  for the state function
     W_NVT = -bE,  W_HMC = -b(E+K),  W_NPT = -b(E+PV) + (N+1) ln V,
     W_muVT = b mu N + N ln(V/Lambda^3) - ln N! - bE,
     with x, y the configurations actually present before and after the real move (energies from an
     uninterpreted potential-energy surface, so for every potential);
 O2  every shipped proposal is as likely as its inverse (C10's involution obligations, re-run here);
 O3  selection is unbiased: targets are drawn with an unweighted choice over the eligible labels,
     insertion/deletion are equally likely by default, the volume seen by the criteria is the cell's;
 O5  the Hamiltonian proposal is the reversible velocity-Verlet map from freshly drawn momenta
     (C14's obligations, re-run here);
 O6  the isotropic volume move scales the atoms with the cell (fractional coordinates unchanged).
 O4 (a rejected trial restores x, an accepted one installs y) is C03/C04.
The analytic averages in the statement are integrals of pi and need no code.
"""
from __future__ import annotations

import math

import numpy as np
import z3

from .. import mcsim, shims, symx
from ..runner import Report, generic_replay, run_plan
from ..symx import E, SB, SR, lift
from . import c02, c10, c14

ID = "C01"
LEVEL = "other"


class Spy:
    """Wraps the real criteria: records the decision, the uniform number it drew and the state it saw."""

    def __init__(self, inner, ctx, V):
        self.inner, self.ctx, self.V = inner, ctx, V
        self.rec = None

    def evaluate(self, context):
        V = self.V
        rng = context.rng
        u = V.real("u", lo=0, hi=1, hi_strict=True) if V.mode == "sym" else None
        saved = context.rng
        if V.mode == "sym":
            context.rng = c02.OneU(u)
        else:
            u = saved.random()
            context.rng = c02.OneU(u)
        try:
            d = self.inner.evaluate(context)
        finally:
            context.rng = saved
        thr = None
        if V.mode != "sym":
            def ev(uu):
                context.rng = c02.OneU(uu)
                try:
                    return bool(self.inner.evaluate(context))
                finally:
                    context.rng = saved

            try:
                thr = c02.threshold_of(ev)
            except Exception:  # noqa: BLE001
                thr = None
        atoms = context.atoms
        self.rec = {"threshold": thr, "decision": d, "u": u, "pos": np.array(atoms.positions).copy(), "cell": np.array(atoms.cell.array).copy(), "n": len(atoms), "numbers": list(atoms.numbers), "momenta": np.array(atoms.get_momenta()).copy(), "masses": np.array(atoms.get_masses()).copy()}
        return d

    def to_dict(self):
        return self.inner.to_dict()


def _U(V, pes, template, numbers, pos, cell):
    """Energy of a configuration, from scratch (independent of anything the driver remembered)."""
    a = template.copy()
    while len(a) > len(numbers):
        del a[[len(a) - 1]]
    if len(a) < len(numbers):
        cls = type(a)
        extra = cls(numbers=numbers[len(a):], positions=np.zeros((len(numbers) - len(a), 3)))
        a.extend(extra)
    a.numbers[:] = numbers
    if V.mode == "sym":
        a.arrays["positions"] = np.array(pos, dtype=object)
        a.set_cell(cell, scale_atoms=False)
    else:
        a.set_positions(pos, apply_constraint=False)
        a.set_cell(cell, scale_atoms=False)
    return pes.energy(a)


def _vol(V, cell):
    if V.mode == "sym":
        d = shims.det3(cell)
        return abs(d) if not symx.is_sym(d) else E().define("vol", abs(d).e)
    return abs(float(np.linalg.det(np.asarray(cell, dtype=float))))


def _log(V, x):
    if V.mode == "sym":
        return SR(E().app("log", lift(x))) if symx.is_sym(x) else math.log(float(x))
    return math.log(float(x))


def _kinetic(rec):
    p, m = rec["momenta"], rec["masses"]
    tot = 0.0
    for i in range(len(m)):
        for k in range(3):
            tot = tot + p[i, k] * p[i, k] / m[i]
    return 0.5 * tot


def sc_trial(V, ensemble="NVT", warmup=False, lefthanded=False):
    from ase.units import _e, _hplanck, _Nav, kB

    info = f"O1:{ensemble}:warmup={warmup}" + (":left-handed-cell" if lefthanded else "")
    T = 300.0
    beta = 1.0 / (kB * T)
    n = 0 if ensemble == "muVT0" else 2
    atoms = mcsim.make_atoms(V, n, momenta=(ensemble == "HMC"), extras=False)
    if lefthanded:
        # the same lattice with two vectors exchanged: negative determinant, the volume is still |det|
        atoms.set_cell(np.array(mcsim.CELL)[[1, 0, 2]], scale_atoms=False)
    pes = mcsim.PES(V)
    atoms.calc = mcsim.ModelCalc("caching", pes)
    labels = np.arange(n)
    P, mu = 0.02, -0.3
    exch = None
    if ensemble == "NVT":
        mc = mcsim.make_driver(V, "Canonical", atoms)
        move = mcsim.make_move(V, "d", labels, n)
    elif ensemble == "HMC":
        mc = mcsim.make_driver(V, "HamiltonianCanonical", atoms)
        move = mcsim.make_move(V, "h", labels, n)
    elif ensemble == "NPT":
        from quansino.mc.isobaric import Isobaric
        from quansino.moves.cell import CellMove

        mc = Isobaric(atoms, temperature=T, pressure=P, max_cycles=1, seed=11)
        move = CellMove()  # the shipped default: isotropic deformation, atoms scaled with the cell
    else:
        from quansino.mc.gcmc import GrandCanonical
        from quansino.moves.exchange import ExchangeMove

        exch = mcsim.exchange_species(V, 1)
        mc = GrandCanonical(atoms, exchange_atoms=exch, temperature=T, chemical_potential=mu, number_of_exchange_particles=n, max_cycles=1, seed=11)
        move = ExchangeMove(labels)
        ensemble = "muVT"
    mcsim.install_rng(mc, mcsim.make_rng(V))
    mc.add_move(move, name="m")
    st = mc.moves["m"]
    spy = Spy(st.criteria, mc.context, V)
    st.criteria = spy
    mc.validate_simulation()
    if warmup:
        # one earlier trial of any outcome (accepted, rejected or not completed): nothing of it may
        # change the rule applied to the next one
        st.criteria = mcsim.CoinCriteria()  # verdict of the earlier trial: a free symbolic coin
        mcsim.run_trial(mc)
        st.criteria = spy
        n = len(atoms)
    mark = len(E().draws) if V.mode == "sym" else getattr(mc._rng, "i", 0)
    x = {"pos": np.array(atoms.positions).copy(), "cell": np.array(atoms.cell.array).copy(), "numbers": list(atoms.numbers), "N": getattr(mc.context, "number_of_exchange_particles", None)}
    template = atoms.copy()
    if ensemble == "HMC":
        # the kinetic energy of x is that of the momenta drawn for this trial: capture them at the refresh
        cap = {}
        orig = move.distribution

        def dist(context):
            orig(context)
            cap["K"] = _kinetic({"momenta": np.array(context.atoms.get_momenta()), "masses": np.array(context.atoms.get_masses())})

        move.distribution = dist
    try:
        name, verdict = mcsim.run_trial(mc)
    except OverflowError:
        return
    if ensemble == "muVT":
        # O3: whether an insertion or a deletion is proposed depends on nothing but the first uniform
        # draw and the configured bias, in EVERY state (also the empty system)
        n_after = spy.rec["n"] if spy.rec is not None else len(atoms)
        inserted, deleted = n_after > n, n_after < n
        if V.mode == "sym":
            first = [d for d in E().draws[mark:] if d["kind"] == "random" and not isinstance(d["value"], np.ndarray)]
            if first:
                u0 = first[0]["value"]
                if inserted:
                    V.prove(SB(lift(u0) < lift(move.bias_towards_insert)), "O3:insertion-proposed-iff-draw-below-bias", info=info + f":N={n}")
                else:
                    V.prove(SB(lift(u0) >= lift(move.bias_towards_insert)), "O3:insertion-proposed-iff-draw-below-bias", info=info + f":N={n}:deleted={deleted}")
        else:
            dr = [d for d in (V.w.get("draws") or [])[mark:] if d["kind"] == "random" and not isinstance(d["value"], list)]
            if dr:
                u0 = symx.wfloat(dr[0]["value"])
                V.prove((u0 < move.bias_towards_insert) == inserted or (not inserted and not deleted and u0 >= move.bias_towards_insert), "O3:insertion-proposed-iff-draw-below-bias", info=info)
    if spy.rec is None:
        V.reach("not-attempted")
        return
    V.reach("judged")
    y = spy.rec
    Ux = _U(V, pes, template, x["numbers"], x["pos"], x["cell"])
    Uy = _U(V, pes, template, y["numbers"], y["pos"], y["cell"])
    if ensemble == "NVT":
        X = -(Uy - Ux) / (T * kB)
        pref = None
    elif ensemble == "HMC":
        X = -((Uy + _kinetic(y)) - Ux - cap["K"]) / (T * kB)
        pref = None
    elif ensemble == "NPT":
        Vx, Vy = _vol(V, x["cell"]), _vol(V, y["cell"])
        X = -((Uy - Ux) + P * (Vy - Vx)) / (T * kB) + (n + 1) * (_log(V, Vy) - _log(V, Vx))
        pref = None
        if V.mode == "sym":
            eng = E()
            eng.axiom(eng.app("log", lift(Vy) / lift(Vx)) == lift(_log(V, Vy)) - lift(_log(V, Vx)))
        # O6: atoms follow the cell (fractional coordinates unchanged)
        if V.mode == "sym":
            fx = np.asarray(x["pos"], dtype=object) @ shims.inv3(x["cell"])
            fy = np.asarray(y["pos"], dtype=object) @ shims.inv3(y["cell"])
            V.prove(V.eq(fy, fx), "O6:fractional-coordinates-unchanged-by-the-volume-move", info=info)
        else:
            fx = np.asarray(x["pos"]) @ np.linalg.inv(x["cell"])
            fy = np.asarray(y["pos"]) @ np.linalg.inv(y["cell"])
            V.prove(V.eq(fy, fx, tol=1e-9), "O6:fractional-coordinates-unchanged-by-the-volume-move", info=info)
    else:
        Nx = x["N"]
        dN = y["n"] - len(x["numbers"])
        V.prove(dN in (1, -1), "O1:one-particle-per-exchange-trial", info=info)
        Vacc = mc.accessible_volume
        V.prove(V.eq(np.array([Vacc]), np.array([_vol(V, x["cell"])]), tol=1e-9), "O3:accessible-volume-is-the-cell-volume", info=info)
        m = float(exch.get_masses().sum())
        if V.mode == "sym":
            lam = (_hplanck**2 / (2 * shims.npw.pi * m * kB * T / _Nav * 1e-3 * _e)).sqrt() * 1e10
        else:
            lam = math.sqrt(_hplanck**2 / (2 * math.pi * m * kB * T / _Nav * 1e-3 * _e)) * 1e10
        # W(N) = b mu N + N ln(V/Lambda^3) - ln N!   =>   exp(W(N+1)-W(N)) = e^{b mu} V / (Lambda^3 (N+1))
        if dN == 1:
            pref = Vacc / (lam * lam * lam * (Nx + 1))
            X = (mu - (Uy - Ux)) / (T * kB)
        else:
            pref = (lam * lam * lam * Nx) / Vacc
            X = (-mu - (Uy - Ux)) / (T * kB)
        V.prove(abs(move.bias_towards_insert - 0.5) < 1e-15, "O3:insertion-and-deletion-equally-likely-by-default", info=info)
    c02._textbook(V, y["decision"], y["u"], X, pref, "O1:acceptance==exp(W(y)-W(x))", info, threshold=y.get("threshold"))
    # O3: unweighted selection
    if V.mode == "sym":
        rng = mc._rng
        picks = [c for c in rng.choice_p if c.get("size") is None]
        ok = all(c["p"] is None or all((not symx.is_sym(q)) and abs(float(q) - 1.0 / len(c["p"])) < 1e-12 for q in c["p"]) for c in picks[1:]) if len(picks) > 1 else True
        V.prove(ok, "O3:targets-selected-uniformly", info=info)


def sc_c10(V, **kw):
    return c10.SCENARIOS[kw.pop("which")](V, **kw)


def sc_c14(V, **kw):
    return c14.SCENARIOS[kw.pop("which")](V, **kw)


SCENARIOS = {"trial": sc_trial, "proposal": sc_c10, "hamiltonian": sc_c14}
replay = generic_replay(SCENARIOS)


def _plan(tier):
    P = [("trial", dict(ensemble=e), ("judged",)) for e in ("NVT", "HMC", "NPT", "muVT", "muVT0")]
    for e in ("NVT", "muVT", "muVT0"):
        P.append(("trial", dict(ensemble=e, warmup=True), ("judged",)))
    for e in ("NPT", "muVT"):
        P.append(("trial", dict(ensemble=e, lefthanded=True), ("judged",)))
    for op in ("Ball", "Sphere", "Box"):
        P.append(("proposal", dict(which="disp", op=op), ("done",)))
    P.append(("proposal", dict(which="rotation", n=2, cell="tric", with_translation=False), ("done",)))
    P.append(("proposal", dict(which="translation", n=2, cell="tric"), ("done",)))
    P.append(("proposal", dict(which="deformation", op="Isotropic", masked=False), ("done",)))
    P.append(("proposal", dict(which="composite", k=3), ("done",)))
    P.append(("hamiltonian", dict(which="reversible", n=1, nsteps=1, apply_constraints=True), ("done",)))
    P.append(("hamiltonian", dict(which="reference", n=1, nsteps=2, apply_constraints=True, reassign=False), ("done",)))
    P.append(("hamiltonian", dict(which="refresh", n=1, forced=False), ("done",)))
    P.append(("hamiltonian", dict(which="refresh", n=2, forced=False, pbc=True), ("done",)))
    if tier != "quick":
        P.append(("proposal", dict(which="deformation", op="Anisotropic", masked=False), ("done",)))
        P.append(("proposal", dict(which="deformation", op="Shape", masked=False), ("done",)))
        P.append(("hamiltonian", dict(which="reversible", n=2, nsteps=1, apply_constraints=False), ("done",)))
    P.append(("trial", dict(ensemble="NVT"), (), "O1:acceptance==exp(W(y)-W(x))"))
    return P


def run(rep: Report):
    tier = rep.tier
    opts = {"prove_timeout_ms": 15000 if tier == "quick" else 60000, "fork_timeout_ms": 2000, "seed": rep.seed, "scenario_wall_s": 900 if tier == "quick" else 1200}
    run_plan(rep, _plan(tier), SCENARIOS, opts)
    rep.bounds = {"particles": "2 atoms before the trial (the obligations are per trial and per particle count N; N enters symbolically only through the concrete 2, 3, 1)", "trials": "1 real trial per ensemble", "temperature/pressure/mu": "concrete (300 K, 0.02 eV/A^3, -0.3 eV); the decision function itself is checked for symbolic values in C02"}
    rep.assumptions = ["detailed balance + the proposals' symmetry is the sufficient condition decided; ergodicity/irreducibility, convergence rate, statistical error, rounding and PRNG quality are outside", "energies from an uninterpreted PES: the identity holds for every potential, in particular the harmonic, dipole and ideal-gas systems of the statement"]
    rep.stubs = ["Spy criteria wrapper (records decision, draw and state)", "SymAtoms, SymRNG, ModelCalc"]
    rep.outside = ["the limit over an infinite chain (not an SMT formula)", "Haar-uniformity of the orientation given to an inserted molecule (three Euler angles each uniform over a full turn are symmetric as a MOVE but not Haar-uniform as an orientation; not checked)", "isotension (its reference cell moves; not in the statement)", "O4 is decided by C03/C04"]
    rep.extra["explanation"] = "detailed balance w.r.t. the ensemble density: acceptance exponent of one real trial equals the difference of a state function, proposals symmetric, selection unbiased, volume move scales the atoms; the infinite-chain limit itself is outside any bounded solver claim"
