"""C07 -- restarting from any saved step continues the same trajectory.

Symbolic part: a simulation in an ARBITRARY state (symbolic positions, reference energies, step
counter, every numeric parameter of driver, moves and operations symbolic; generator state a
symbolic token) is saved by the real RestartObserver through the real ase JSON writer (symbols
travel as sentinels), read back, rebuilt in the documented way (`get_class(name).from_dict(data)`),
given its calculator back, and (a) compared field by field with the live simulation, (b) advanced
by one real step next to the live simulation on the same draw symbols (the generator stub names
its draws by (state token, index), so equal states give equal symbols): atoms, energies, history,
labels and counters must agree.  (a) makes (b) inductive over the remaining steps and over k.
Replay: the real thing, with the real PCG64 -- run, restart from the file written at step k,
compare bit for bit with the uninterrupted run.
"""
from __future__ import annotations

import io
import os
import tempfile

import numpy as np
import z3

from .. import mcsim, shims, symx
from ..runner import Report, generic_replay, run_plan
from ..symx import E, SB, SI, SR, lift
from . import c03, c08

ID = "C07"
LEVEL = "model_checking"


# ------------------------------------------------------------------ generator stubs with serialisable state
class TokenBitGen:
    def __init__(self, seed=None):
        self.seed = seed
        self.rng = None

    @property
    def state(self):
        r = self.rng
        return {"bit_generator": "PCG64", "state": {"state": r.ident, "inc": r.ndraws}, "has_uint32": 0, "uinteger": 0}

    @state.setter
    def state(self, v):
        self.rng.ident = v["state"]["state"]
        self.rng.ndraws = v["state"]["inc"]

    def random_raw(self):
        return 123456789


class TokenRNG(shims.SymRNG):
    """SymRNG whose draw symbols are named by (stream identity, position): two generators in the same
    state produce the very same symbols."""

    def __init__(self, bitgen=None):
        super().__init__("own")
        self.bit_generator = bitgen if bitgen is not None else TokenBitGen()
        self.bit_generator.rng = self
        self.ident = 0
        self.ndraws = 0
        self._sub = 0

    def _name(self, kind):
        ident = self.ident
        nd = self.ndraws
        key = f"{kind}@{lift(ident) if symx.is_sym(ident) else ident}:{lift(nd) if symx.is_sym(nd) else nd}:{self._sub}"
        self._sub += 1
        return key

    def _log(self, kind, value, **extra):
        super()._log(kind, value, **extra)
        self._sub = 0

    def _one(self, lo, hi, name):
        u = SR(z3.Real(self._name(name)))
        E().assume(z3.And(u.e >= lift(lo), u.e < lift(hi)))
        return u

    def standard_normal(self, size=None):
        if size is None:
            v = SR(z3.Real(self._name("g")))
        else:
            if isinstance(size, (int, np.integer)):
                size = (int(size),)
            v = np.empty(tuple(size), dtype=object)
            for idx in np.ndindex(*v.shape):
                v[idx] = SR(z3.Real(self._name("g")))
        self._log("standard_normal", v, size=size)
        return v

    def choice(self, a, size=None, replace=True, p=None):
        arr = np.asarray(a)
        if arr.ndim == 0:
            arr = np.arange(int(arr))
        n = len(arr)
        if size is not None:
            k = int(size)
            ks = []
            for _ in range(k):
                kk = SI(z3.Int(self._name("slot")))
                E().assume(z3.And(kk.e >= 0, kk.e < n))
                if not replace:
                    for o in ks:
                        E().assume(kk.e != o.e)
                ks.append(kk)
            idx = [int(x) for x in ks]
            self._log("choice", idx, n=n, size=k, replace=bool(replace))
            return arr[idx] if k else arr[:0]
        kk = SI(z3.Int(self._name("pick")))
        E().assume(z3.And(kk.e >= 0, kk.e < n))
        if p is not None:
            pl = list(np.asarray(p, dtype=object).ravel().tolist())
            for i in range(n):
                E().assume(z3.Implies(kk.e == i, lift(pl[i]) > 0))
        i = int(kk)
        self._log("choice", i, n=n, size=None, replace=bool(replace))
        return arr[i]


def patch_extra():
    import numpy.random

    return [(numpy.random.PCG64, TokenBitGen), (numpy.random.Generator, TokenRNG)]


# ------------------------------------------------------------------ scenario construction
TABLES = {
    "Canonical": ("d", "d2", "dmol"),
    "HamiltonianCanonical": ("h",),
    "Isobaric": ("d+cellmove", "shape-masked"),
    "Isotension": ("aniso", "d+cellmove"),
    "GrandCanonical": ("e", "e+d", "emol"),
}


def _table(V, driver, table, mc, n):
    from quansino.integrators.displacement import Verlet
    from quansino.moves.cell import CellMove
    from quansino.moves.displacement import DisplacementMove, HamiltonianDisplacementMove
    from quansino.moves.exchange import ExchangeMove
    from quansino.operations.cell import AnisotropicDeformation, IsotropicDeformation, ShapeDeformation
    from quansino.operations.displacement import Ball, Box, Translation

    lab = np.arange(n)
    step = V.real("step", lo=0.01, hi=1)
    if table == "d":
        mc.add_move(DisplacementMove(lab, Box(step)), name="disp", interval=1, probability=V.real("prob", lo=0.1, hi=1), minimum_count=0)
    elif table == "d2":
        mc.add_move(DisplacementMove(lab, Box(step)) * 2, criteria=_crit("CanonicalCriteria"), name="disp2")
    elif table == "dmol":
        m = DisplacementMove(np.array([0, 0] + list(range(1, n - 1)))[:n], Box(step) + Box(V.real("step2", lo=0.01, hi=1)))
        m.default_label = 0
        mc.add_move(m, name="mol")
    elif table == "h":
        mc.add_move(HamiltonianDisplacementMove(operation=Verlet(dt=V.real("dt", lo=0.1, hi=3), max_steps=1, apply_constraints=False)), name="hmc")
    elif table == "d+cellmove":
        mc.add_move(DisplacementMove(lab, Box(step)), name="disp", probability=0.5)
        mc.add_move(CellMove(IsotropicDeformation(V.real("maxv", lo=0.001, hi=0.2)), scale_atoms=False), name="cell", probability=0.5)
    elif table == "shape-masked":
        mask = np.ones((3, 3), dtype=bool)
        mask[0, 1] = mask[1, 0] = False
        mc.add_move(CellMove(ShapeDeformation(V.real("maxv", lo=0.001, hi=0.2), mask=mask)), name="cell")
    elif table == "aniso":
        mask = np.ones((3, 3), dtype=bool)
        mask[2, 2] = False
        mc.add_move(CellMove(AnisotropicDeformation(V.real("maxv", lo=0.001, hi=0.2), mask=mask)), name="cell")
    elif table == "e":
        m = ExchangeMove(lab, Translation(), bias_towards_insert=V.real("bias", lo=0.1, hi=0.9))
        m.default_label = 0
        mc.add_move(m, name="exch")
    elif table == "e+d":
        mc.add_move(ExchangeMove(lab, Translation()), name="exch", probability=0.5)
        mc.add_move(DisplacementMove(lab, Box(step)), name="disp", probability=0.5)
    elif table == "emol":
        mc.add_move(ExchangeMove(np.array([0, 0] + list(range(1, n - 1)))[:n], Translation()), name="exch")
    else:
        raise KeyError(table)


def _crit(name):
    import quansino.mc.criteria as C

    return getattr(C, name)()


def _make(V, driver, table, n):
    atoms = mcsim.make_atoms(V, n, momenta=(driver == "HamiltonianCanonical"), extras=False)
    pes = mcsim.PES(V)
    atoms.calc = mcsim.ModelCalc("caching", pes)
    T = V.real("T", lo=10, hi=3000)
    if driver == "Canonical":
        from quansino.mc.canonical import Canonical

        mc = Canonical(atoms, temperature=T, max_cycles=1, seed=77)
    elif driver == "HamiltonianCanonical":
        from quansino.mc.canonical import HamiltonianCanonical

        mc = HamiltonianCanonical(atoms, temperature=T, max_cycles=1, seed=77)
    elif driver == "Isobaric":
        from quansino.mc.isobaric import Isobaric

        mc = Isobaric(atoms, temperature=T, pressure=V.real("P", lo=-0.5, hi=0.5), max_cycles=1, seed=77)
    elif driver == "Isotension":
        from quansino.mc.isotension import Isotension

        mc = Isotension(atoms, temperature=T, pressure=V.real("P", lo=-0.5, hi=0.5), external_stress=V.array("S", (3, 3)), max_cycles=1, seed=77)
    else:
        from quansino.mc.gcmc import GrandCanonical

        mc = GrandCanonical(atoms, exchange_atoms=mcsim.exchange_species(V, 2 if table == "emol" else 1), temperature=T, chemical_potential=V.real("mu", lo=-3, hi=3), number_of_exchange_particles=n, max_cycles=1, seed=77)
        mc.accessible_volume = V.real("Vacc", lo=10, hi=500)
    _table(V, driver, table, mc, n)
    return mc, atoms, pes


def _state_diffs(V, mc, mc2):
    diffs = []
    c08.equal_value(V, mc.step_count, mc2.step_count, "step_count", diffs)
    c08.equal_value(V, mc._seed, mc2._seed, "seed", diffs)
    c08.equal_value(V, mc.max_cycles, mc2.max_cycles, "max_cycles", diffs)
    d1 = mc.context.to_dict()
    d2 = mc2.context.to_dict()
    for k in d1:
        if k in ("last_results", "exchange_atoms"):
            continue
        if k not in d2:
            diffs.append(f"context.{k}: missing")
            continue
        v1, v2 = d1[k], d2[k]
        if hasattr(v1, "array"):
            v1, v2 = np.asarray(v1.array), np.asarray(getattr(v2, "array", v2))
        c08.equal_value(V, v1, v2, f"context.{k}", diffs)
    if hasattr(mc.context, "external_stress"):
        c08.equal_value(V, np.asarray(mc.context.external_stress), np.asarray(mc2.context.external_stress), "context.external_stress", diffs)
    if hasattr(mc.context, "exchange_atoms"):
        a, b = mc.context.exchange_atoms, mc2.context.exchange_atoms
        if len(a) != len(b) or list(a.numbers) != list(b.numbers):
            diffs.append("exchange species")
        else:
            c08.equal_value(V, np.asarray(a.arrays["positions"]), np.asarray(b.arrays["positions"]), "exchange_atoms.positions", diffs)
    if list(mc.moves) != list(mc2.moves):
        diffs.append(f"move table {list(mc.moves)} -> {list(mc2.moves)}")
    else:
        for nm in mc.moves:
            c08.equal_value(V, mc.moves[nm], mc2.moves[nm], f"moves[{nm}]", diffs)
    a, b = mc.atoms, mc2.atoms
    if len(a) != len(b) or list(a.numbers) != list(b.numbers):
        diffs.append("atoms")
    else:
        c08.equal_value(V, np.asarray(a.arrays["positions"]), np.asarray(b.arrays["positions"]), "atoms.positions", diffs)
        c08.equal_value(V, np.asarray(a.cell.array), np.asarray(b.cell.array), "atoms.cell", diffs)
        c08.equal_value(V, np.asarray(a.get_momenta()), np.asarray(b.get_momenta()), "atoms.momenta", diffs)
    return diffs


def _symatoms(o):
    """Decoded ase.Atoms -> SymAtoms (same content), so that the rebuilt simulation can run on proxies."""
    from ase import Atoms

    if isinstance(o, Atoms) and not isinstance(o, shims.SymAtoms):
        a = shims.SymAtoms(numbers=o.numbers, positions=np.zeros((len(o), 3)), cell=np.asarray(o.cell.array), pbc=o.pbc)
        for k, v in o.arrays.items():
            a.arrays[k] = shims.objectify(np.array(v)) if np.asarray(v).dtype.kind in "fO" else np.array(v)
        if o.constraints:
            a.set_constraint(o.constraints)
        return a
    if isinstance(o, dict):
        return {k: _symatoms(v) for k, v in o.items()}
    if isinstance(o, list):
        return [_symatoms(v) for v in o]
    return o


def sc_restart(V, driver="Canonical", table="d", n=2):
    from quansino.io.restart import RestartObserver
    from quansino.registry import get_class

    info = f"{driver}:{table}"
    if V.mode != "sym":
        return _concrete_restart(V, driver, table, n, info)
    mc, atoms, pes = _make(V, driver, table, n)
    mc.validate_simulation()
    # arbitrary step k: symbolic counter, reference energies and generator position
    mc.step_count = V.int("k", 0, None)
    # reference energies are those of the current configuration (the invariant every real history
    # maintains, C04); an arbitrary value would be a state no run can reach
    if driver == "HamiltonianCanonical":
        mc.context.last_kinetic_energy = V.real("Klast", lo=0)  # overwritten by every Hamiltonian move before use
    mc._rng.ident = V.int("rng_ident", 0, None)
    mc._rng.ndraws = V.int("rng_pos", 0, None)
    buf = io.StringIO()
    try:
        ro = RestartObserver(mc, file=buf, interval=1, mode="w")
        import ase.io.jsonio as J

        sent = c08.Sentinels()
        orig = J.MyEncoder.default

        def default(self, obj):
            if isinstance(obj, (SR, SI)):
                return sent.enc(obj)
            if isinstance(obj, np.ndarray) and obj.dtype == object:
                flat = [sent.enc(x) if isinstance(x, (SR, SI)) else x for x in obj.ravel().tolist()]
                return orig(self, np.array(flat, dtype=float).reshape(obj.shape))
            return orig(self, obj)

        J.MyEncoder.default = default
        try:
            ro()
        finally:
            J.MyEncoder.default = orig
        buf.seek(0)
        data = _symatoms(sent.dec(J.read_json(buf)))
    except Exception as ex:  # noqa: BLE001
        V.fail("restart-file-written", info=info + ":" + type(ex).__name__ + ":" + str(ex)[:70])
        return
    try:
        mc2 = get_class(data["name"]).from_dict(data)
    except Exception as ex:  # noqa: BLE001
        V.fail("rebuilt-in-the-documented-way", info=info + ":" + type(ex).__name__ + ":" + str(ex)[:70])
        return
    V.reach("rebuilt")
    V.prove(type(mc2) is type(mc), "same-driver-class", info=info)
    V.prove(mc2.context.rng is mc2._rng, "context-shares-the-restored-generator", info=info)
    r1, r2 = mc._rng, mc2._rng
    gd = []
    c08.equal_value(V, r1.ident, r2.ident, "generator.stream", gd)
    c08.equal_value(V, r1.ndraws, r2.ndraws, "generator.position", gd)
    V.prove(not gd, "generator-state-restored", info=info)
    diffs = _state_diffs(V, mc, mc2)
    V.prove(not diffs, "state-restored", info=info + ":" + ",".join(sorted({d.split(":")[0].split("[")[0] for d in diffs}))[:80])
    if diffs or gd:
        return
    # (b) one further step on both, same draw symbols
    mc2.atoms.calc = mcsim.ModelCalc("caching", pes)
    try:
        mc2.validate_simulation()
        h1 = mcsim.run_trial(mc)
        h2 = mcsim.run_trial(mc2)
    except (symx.PathAbort, symx.BoundHit, symx.Unsupported):
        raise
    except Exception as ex:  # noqa: BLE001
        V.fail("continues-after-restart", info=info + ":" + type(ex).__name__ + ":" + str(ex)[:70])
        return
    v1 = None if h1[1] is None else bool(h1[1])
    v2 = None if h2[1] is None else bool(h2[1])
    V.reach({None: "failed", True: "accepted", False: "rejected"}[v1])
    V.prove(str(h1[0]) == str(h2[0]) and v1 == v2, "same-move-and-verdict", info=info)
    d2 = _state_diffs(V, mc, mc2)
    V.prove(not d2, "same-state-after-the-next-step", info=info + ":" + ",".join(sorted({d.split(":")[0].split("[")[0] for d in d2}))[:80])


def _concrete_restart(V, driver, table, n, info, nsteps=6):
    """Replay: the real code with the real PCG64 and a real calculator."""
    from ase.calculators.lj import LennardJones

    from quansino.registry import get_class
    import ase.io.jsonio as J

    class _Geo(symx.Replay):
        def array(self, name, shape):
            if name == "x":  # a sensible, non-degenerate geometry
                return np.array([[0.9 + 1.35 * i, 1.1 + 0.4 * (i % 2), 1.3 + 0.3 * i] for i in range(shape[0])])
            if name == "ex":
                return np.array([[0.0, 0.0, 0.0], [0.0, 0.0, 1.1]])[: shape[0]]
            if name == "S":
                return np.diag([0.01, 0.02, 0.0]) + 0.005
            return super().array(name, shape)

        def real(self, name, lo=None, hi=None, **k):
            if name not in self.sym and lo is not None and hi is not None:
                return lo + 0.37 * (hi - lo)
            return super().real(name, lo, hi, **k)

    Vc = _Geo({"symbols": {k: v for k, v in V.sym.items() if not k.startswith(("x", "p", "ex"))}, "draws": []})

    def fresh():
        mc, atoms, pes = _make(Vc, driver, table, n)
        atoms.calc = LennardJones(sigma=1.0, epsilon=0.05, rc=3.0)
        return mc, atoms

    with tempfile.TemporaryDirectory() as td:
        path = os.path.join(td, "restart.json")
        def labels_of(mc_):
            out = []
            for nm, st_ in mc_.moves.items():
                for m_ in getattr(st_.move, "moves", [st_.move]):
                    if hasattr(m_, "labels"):
                        out.append((nm, [int(x) for x in m_.labels], m_.default_label))
            return out

        ref, ratoms = fresh()
        ref.run(nsteps)
        final = (np.array(ratoms.positions), np.array(ratoms.cell.array), len(ratoms), ref.step_count, labels_of(ref), getattr(ref.context, "number_of_exchange_particles", None), [(str(a), None if b is None else bool(b)) for a, b in ref.move_history])
        bad = []
        for k in range(0, nsteps):
            mc, atoms = fresh()
            from quansino.io.restart import RestartObserver

            ro = RestartObserver(mc, file=path, interval=1, mode="w")
            mc.file_manager.attach_observer("restart", ro)
            mc.run(k)
            ro.close()
            with open(path) as fh:
                data = J.read_json(fh)
            try:
                mc2 = get_class(data["name"]).from_dict(data)
                mc2.atoms.calc = LennardJones(sigma=1.0, epsilon=0.05, rc=3.0)
                mc2.run(nsteps - k)
            except Exception as ex:  # noqa: BLE001
                bad.append(f"k={k}:{type(ex).__name__}:{str(ex)[:60]}")
                continue
            a2 = mc2.atoms
            same = len(a2) == final[2] and np.array_equal(np.array(a2.positions), final[0]) and np.array_equal(np.array(a2.cell.array), final[1]) and mc2.step_count == final[3]
            same = same and labels_of(mc2) == final[4] and getattr(mc2.context, "number_of_exchange_particles", None) == final[5] and [(str(a), None if b is None else bool(b)) for a, b in mc2.move_history] == final[6]
            if not same:
                bad.append(f"k={k}:trajectory differs")
        ok = not bad
        for lab in ("restart-file-written", "rebuilt-in-the-documented-way", "state-restored", "generator-state-restored", "continues-after-restart", "same-move-and-verdict", "same-state-after-the-next-step", "context-shares-the-restored-generator", "same-driver-class", "parameter-preserved"):
            V.prove(ok, lab, info=info + ":" + ";".join(bad[:3]))


def sc_forcebias(V, adaptive=False):
    """ForceBias offers a restart file too: it must be writable and lead back to a simulation."""
    import ase.io.jsonio as J
    from ase import Atoms
    from ase.calculators.lj import LennardJones
    from ase.constraints import FixCom

    from quansino.mc.fbmc import AdaptiveForceBias, ForceBias
    from quansino.registry import get_class

    name = "AdaptiveForceBias" if adaptive else "ForceBias"
    if V.mode == "sym":
        # nothing symbolic here: run the concrete experiment on the unpatched modules (subprocess)
        import json
        import subprocess

        from ..runner import PY, ROOT

        for lab, inf in (("restart-file-written", name), ("rebuilt-in-the-documented-way", name + ":AttributeError"), ("state-restored", name)):
            with tempfile.NamedTemporaryFile("w", suffix=".json", delete=False) as fh:
                json.dump({"property": "C07", "scenario": f"forcebias[adaptive={adaptive}]", "params": {"adaptive": adaptive}, "label": lab, "witness": {"symbols": {}, "draws": []}}, fh)
            try:
                p = subprocess.run([PY, "-m", "qverif.main", "C07", "--replay", fh.name, "--quiet"], cwd=ROOT, capture_output=True, text=True, timeout=200)
            finally:
                os.unlink(fh.name)
            if p.returncode == 1:
                V.fail(lab, info=inf)
                return
        V.reach("rebuilt")
        return
    with tempfile.TemporaryDirectory() as td:
        path = os.path.join(td, "fb.json")
        atoms = Atoms("Cu3", positions=[[0.9, 1.1, 1.3], [2.25, 1.5, 1.6], [3.6, 1.1, 1.9]], cell=mcsim.CELL, pbc=True)
        atoms.set_constraint(FixCom())
        atoms.calc = LennardJones(sigma=1.0, epsilon=0.05, rc=3.0)
        try:
            if adaptive:
                fb = AdaptiveForceBias(atoms, min_delta=0.01, max_delta=0.05, temperature=300.0, seed=5, restart_file=path, logging_mode="w")
            else:
                fb = ForceBias(atoms, delta=0.02, temperature=300.0, seed=5, restart_file=path, logging_mode="w")
            fb.run(2)
            fb.close()
            with open(path) as fh:
                data = J.read_json(fh)
        except Exception as ex:  # noqa: BLE001
            V.fail("restart-file-written", info=f"{name}:{type(ex).__name__}:{str(ex)[:60]}")
            return
        try:
            cls = get_class(data["name"])
            fb2 = cls.from_dict(data)
        except Exception as ex:  # noqa: BLE001
            V.fail("rebuilt-in-the-documented-way", info=f"{name}:{type(ex).__name__}")
            return
        V.prove(fb2.step_count == fb.step_count, "state-restored", info=name)
    V.reach("rebuilt")


SCENARIOS = {"restart": sc_restart, "forcebias": sc_forcebias}
_replay = generic_replay(SCENARIOS)


def replay(data):
    # the concrete restart experiment does not depend on the witness values beyond the parameters:
    # run it once (not once per seeded trial)
    data = dict(data)
    w = dict(data.get("witness") or {})
    w.pop("random_trials", None)
    data["witness"] = w
    return _replay(data)


def _plan(tier):
    P = []
    for d, tabs in TABLES.items():
        for t in tabs if tier != "quick" else tabs[:2]:
            P.append(("restart", dict(driver=d, table=t, n=2 if t not in ("dmol", "emol") else 3), ("rebuilt",)))
    P.append(("forcebias", dict(adaptive=False), ()))
    P.append(("forcebias", dict(adaptive=True), ()))
    P.append(("restart", dict(driver="Canonical", table="d", n=2), (), "state-restored"))
    return P


def run(rep: Report):
    tier = rep.tier
    opts = {"prove_timeout_ms": 10000, "fork_timeout_ms": 1500, "seed": rep.seed, "scenario_wall_s": 240 if tier == "quick" else 1200}
    run_plan(rep, _plan(tier), SCENARIOS, opts)
    rep.bounds = {"drivers x tables": {d: list(t) for d, t in TABLES.items()}, "restart point": "symbolic step counter k >= 0, symbolic generator position, symbolic reference energies (arbitrary state)", "continuation": "1 step after the restart (inductive through state equality)", "atoms": "2-3"}
    rep.assumptions = ["numpy PCG64/Generator replaced by a stub whose state is a (stream, position) token and whose draws are symbols named by that token (equal states => equal draws)", "calculator re-attached after the restart (documented: calculators are not serialized)", "numeric parameters symbolic, carried through the real JSON codec as sentinels"]
    rep.stubs = ["TokenRNG/TokenBitGen", "sentinel hook in ase jsonio", "ModelCalc over an uninterpreted PES"]
    rep.outside = ["calculator state", "open file positions of the observers", "ForceBias/AdaptiveForceBias (no from_dict: known finding)"]
    rep.extra["explanation"] = "restart file -> rebuilt simulation: field-by-field state equality for an arbitrary symbolic state plus one-step bisimulation on shared draw symbols"
