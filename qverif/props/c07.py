"""C07 -- restarting from any saved step continues the same trajectory.

Symbolic part: a simulation in an ARBITRARY state (symbolic positions, reference energies, step
counter, every numeric parameter of driver, moves and operations symbolic; generator state a
symbolic token) is saved by the real RestartObserver through the real ase JSON writer (symbols
travel as sentinels), read back, rebuilt in the documented way (`get_class(name).from_dict(data)`),
given its calculator back, and (a) compared field by field with the live simulation, (b) advanced
by one real step next to the live simulation on the same draw symbols (the generator stub names
its draws by (state token, index), so equal states give equal symbols): atoms, energies, history,
labels and counters must agree.  (a) makes (b) inductive over the remaining steps and over k.
Replay: the real thing, with the real PCG64 -- run, restart from the file written at step k,
compare bit for bit with the uninterrupted run.
"""
from __future__ import annotations

import io
import os
import tempfile

import numpy as np
import z3

from .. import mcsim, shims, symx
from ..runner import Report, generic_replay, run_plan
from ..symx import E, SB, SI, SR, lift
from . import c03, c08

ID = "C07"
LEVEL = "model_checking"


# ------------------------------------------------------------------ generator stubs with serialisable state
class TokenBitGen:
    def __init__(self, seed=None):
        self.seed = seed
        self.rng = None

    @property
    def state(self):
        r = self.rng
        return {"bit_generator": "PCG64", "state": {"state": r.ident, "inc": r.ndraws}, "has_uint32": 0, "uinteger": 0}

    @state.setter
    def state(self, v):
        self.rng.ident = v["state"]["state"]
        self.rng.ndraws = v["state"]["inc"]

    def random_raw(self):
        return 123456789


class TokenRNG(shims.SymRNG):
    """SymRNG whose draw symbols are named by (stream identity, position): two generators in the same
    state produce the very same symbols."""

    def __init__(self, bitgen=None):
        super().__init__("own")
        self.bit_generator = bitgen if bitgen is not None else TokenBitGen()
        self.bit_generator.rng = self
        self.ident = 0
        self.ndraws = 0
        self._sub = 0

    def _name(self, kind):
        ident = self.ident
        nd = self.ndraws
        key = f"{kind}@{lift(ident) if symx.is_sym(ident) else ident}:{lift(nd) if symx.is_sym(nd) else nd}:{self._sub}"
        self._sub += 1
        return key

    def _log(self, kind, value, **extra):
        super()._log(kind, value, **extra)
        self._sub = 0

    def _one(self, lo, hi, name):
        u = SR(z3.Real(self._name(name)))
        E().assume(z3.And(u.e >= lift(lo), u.e < lift(hi)))
        return u

    def standard_normal(self, size=None):
        if size is None:
            v = SR(z3.Real(self._name("g")))
        else:
            if isinstance(size, (int, np.integer)):
                size = (int(size),)
            v = np.empty(tuple(size), dtype=object)
            for idx in np.ndindex(*v.shape):
                v[idx] = SR(z3.Real(self._name("g")))
        self._log("standard_normal", v, size=size)
        return v

    def choice(self, a, size=None, replace=True, p=None):
        arr = np.asarray(a)
        if arr.ndim == 0:
            arr = np.arange(int(arr))
        n = len(arr)
        if size is not None:
            k = int(size)
            ks = []
            for _ in range(k):
                kk = SI(z3.Int(self._name("slot")))
                E().assume(z3.And(kk.e >= 0, kk.e < n))
                if not replace:
                    for o in ks:
                        E().assume(kk.e != o.e)
                ks.append(kk)
            idx = [int(x) for x in ks]
            self._log("choice", idx, n=n, size=k, replace=bool(replace))
            return arr[idx] if k else arr[:0]
        kk = SI(z3.Int(self._name("pick")))
        E().assume(z3.And(kk.e >= 0, kk.e < n))
        if p is not None:
            pl = list(np.asarray(p, dtype=object).ravel().tolist())
            for i in range(n):
                E().assume(z3.Implies(kk.e == i, lift(pl[i]) > 0))
        i = int(kk)
        self._log("choice", i, n=n, size=None, replace=bool(replace))
        return arr[i]


def patch_extra():
    import numpy.random

    return [(numpy.random.PCG64, TokenBitGen), (numpy.random.Generator, TokenRNG)]


# ------------------------------------------------------------------ scenario construction
TABLES = {
    "Canonical": ("d", "d2", "dmol"),
    "HamiltonianCanonical": ("h",),
    "Isobaric": ("d+cellmove", "shape-masked"),
    "Isotension": ("aniso", "d+cellmove"),
    "GrandCanonical": ("e", "e+d", "emol"),
}


def _table(V, driver, table, mc, n):
    from quansino.integrators.displacement import Verlet
    from quansino.moves.cell import CellMove
    from quansino.moves.displacement import DisplacementMove, HamiltonianDisplacementMove
    from quansino.moves.exchange import ExchangeMove
    from quansino.operations.cell import AnisotropicDeformation, IsotropicDeformation, ShapeDeformation
    from quansino.operations.displacement import Ball, Box, Translation

    lab = np.arange(n)
    step = V.real("step", lo=0.01, hi=1)
    if table == "d":
        mc.add_move(DisplacementMove(lab, Box(step)), name="disp", interval=1, probability=V.real("prob", lo=0.1, hi=1), minimum_count=0)
    elif table == "d2":
        mc.add_move(DisplacementMove(lab, Box(step)) * 2, criteria=_crit("CanonicalCriteria"), name="disp2")
    elif table == "dmol":
        m = DisplacementMove(np.array([0, 0] + list(range(1, n - 1)))[:n], Box(step) + Box(V.real("step2", lo=0.01, hi=1)))
        m.default_label = 0
        mc.add_move(m, name="mol")
    elif table == "h":
        mc.add_move(HamiltonianDisplacementMove(operation=Verlet(dt=V.real("dt", lo=0.1, hi=3), max_steps=1, apply_constraints=False)), name="hmc")
    elif table == "d+cellmove":
        mc.add_move(DisplacementMove(lab, Box(step)), name="disp", probability=V.real("prob_d", lo=0, hi=1))  # 0 = switched off
        mc.add_move(CellMove(IsotropicDeformation(V.real("maxv", lo=0.001, hi=0.2)), scale_atoms=False), name="cell", probability=0.5)
    elif table == "shape-masked":
        mask = np.ones((3, 3), dtype=bool)
        mask[0, 1] = mask[1, 0] = False
        mc.add_move(CellMove(ShapeDeformation(V.real("maxv", lo=0.001, hi=0.2), mask=mask)), name="cell")
    elif table == "aniso":
        mask = np.ones((3, 3), dtype=bool)
        mask[2, 2] = False
        mc.add_move(CellMove(AnisotropicDeformation(V.real("maxv", lo=0.001, hi=0.2), mask=mask)), name="cell")
    elif table == "e":
        m = ExchangeMove(lab, Translation(), bias_towards_insert=V.real("bias", lo=0, hi=1))
        m.default_label = 0
        mc.add_move(m, name="exch")
    elif table == "e+d":
        mc.add_move(ExchangeMove(lab, Translation()), name="exch", probability=0.5)
        mc.add_move(DisplacementMove(lab, Box(step)), name="disp", probability=0.5)
    elif table == "emol":
        mc.add_move(ExchangeMove(np.array([0, 0] + list(range(1, n - 1)))[:n], Translation()), name="exch")
    else:
        raise KeyError(table)


def _crit(name):
    import quansino.mc.criteria as C

    return getattr(C, name)()


def _make(V, driver, table, n):
    atoms = mcsim.make_atoms(V, n, momenta=(driver == "HamiltonianCanonical"), extras=False)
    pes = mcsim.PES(V)
    atoms.calc = mcsim.ModelCalc("caching", pes)
    T = V.real("T", lo=10, hi=3000)
    if driver == "Canonical":
        from quansino.mc.canonical import Canonical

        mc = Canonical(atoms, temperature=T, max_cycles=1, seed=77)
    elif driver == "HamiltonianCanonical":
        from quansino.mc.canonical import HamiltonianCanonical

        mc = HamiltonianCanonical(atoms, temperature=T, max_cycles=1, seed=77)
    elif driver == "Isobaric":
        from quansino.mc.isobaric import Isobaric

        mc = Isobaric(atoms, temperature=T, pressure=V.real("P", lo=-0.5, hi=0.5), max_cycles=1, seed=77)
    elif driver == "Isotension":
        from quansino.mc.isotension import Isotension

        mc = Isotension(atoms, temperature=T, pressure=V.real("P", lo=-0.5, hi=0.5), external_stress=V.array("S", (3, 3)), max_cycles=1, seed=77)
    else:
        from quansino.mc.gcmc import GrandCanonical

        mc = GrandCanonical(atoms, exchange_atoms=mcsim.exchange_species(V, 2 if table == "emol" else 1), temperature=T, chemical_potential=V.real("mu", lo=-3, hi=3), number_of_exchange_particles=n, max_cycles=1, seed=77)
        mc.accessible_volume = V.real("Vacc", lo=10, hi=500)
    _table(V, driver, table, mc, n)
    return mc, atoms, pes


def _state_diffs(V, mc, mc2):
    diffs = []
    c08.equal_value(V, mc.step_count, mc2.step_count, "step_count", diffs)
    c08.equal_value(V, mc._seed, mc2._seed, "seed", diffs)
    c08.equal_value(V, mc.max_cycles, mc2.max_cycles, "max_cycles", diffs)
    d1 = mc.context.to_dict()
    d2 = mc2.context.to_dict()
    for k in d1:
        if k in ("last_results", "exchange_atoms"):
            continue
        if k not in d2:
            diffs.append(f"context.{k}: missing")
            continue
        v1, v2 = d1[k], d2[k]
        if hasattr(v1, "array"):
            v1, v2 = np.asarray(v1.array), np.asarray(getattr(v2, "array", v2))
        c08.equal_value(V, v1, v2, f"context.{k}", diffs)
    if hasattr(mc.context, "external_stress"):
        c08.equal_value(V, np.asarray(mc.context.external_stress), np.asarray(mc2.context.external_stress), "context.external_stress", diffs)
    if hasattr(mc.context, "exchange_atoms"):
        a, b = mc.context.exchange_atoms, mc2.context.exchange_atoms
        if len(a) != len(b) or list(a.numbers) != list(b.numbers):
            diffs.append("exchange species")
        else:
            c08.equal_value(V, np.asarray(a.arrays["positions"]), np.asarray(b.arrays["positions"]), "exchange_atoms.positions", diffs)
    if list(mc.moves) != list(mc2.moves):
        diffs.append(f"move table {list(mc.moves)} -> {list(mc2.moves)}")
    else:
        for nm in mc.moves:
            c08.equal_value(V, mc.moves[nm], mc2.moves[nm], f"moves[{nm}]", diffs)
    a, b = mc.atoms, mc2.atoms
    if len(a) != len(b) or list(a.numbers) != list(b.numbers):
        diffs.append("atoms")
    else:
        c08.equal_value(V, np.asarray(a.arrays["positions"]), np.asarray(b.arrays["positions"]), "atoms.positions", diffs)
        c08.equal_value(V, np.asarray(a.cell.array), np.asarray(b.cell.array), "atoms.cell", diffs)
        c08.equal_value(V, np.asarray(a.get_momenta()), np.asarray(b.get_momenta()), "atoms.momenta", diffs)
    return diffs


def _symatoms(o):
    """Decoded ase.Atoms -> SymAtoms (same content), so that the rebuilt simulation can run on proxies."""
    from ase import Atoms

    if isinstance(o, Atoms) and not isinstance(o, shims.SymAtoms):
        a = shims.SymAtoms(numbers=o.numbers, positions=np.zeros((len(o), 3)), cell=np.asarray(o.cell.array), pbc=o.pbc)
        for k, v in o.arrays.items():
            a.arrays[k] = shims.objectify(np.array(v)) if np.asarray(v).dtype.kind in "fO" else np.array(v)
        if o.constraints:
            a.set_constraint(o.constraints)
        return a
    if isinstance(o, dict):
        return {k: _symatoms(v) for k, v in o.items()}
    if isinstance(o, list):
        return [_symatoms(v) for v in o]
    return o


def sc_restart(V, driver="Canonical", table="d", n=2):
    from quansino.io.restart import RestartObserver
    from quansino.registry import get_class

    info = f"{driver}:{table}"
    if V.mode != "sym":
        return _concrete_restart(V, driver, table, n, info)
    mc, atoms, pes = _make(V, driver, table, n)
    mc.validate_simulation()
    # arbitrary step k: symbolic counter, reference energies and generator position
    mc.step_count = V.int("k", 0, None)
    # reference energies are those of the current configuration (the invariant every real history
    # maintains, C04); an arbitrary value would be a state no run can reach
    if driver == "HamiltonianCanonical":
        mc.context.last_kinetic_energy = V.real("Klast", lo=0)  # overwritten by every Hamiltonian move before use
    mc._rng.ident = V.int("rng_ident", 0, None)
    mc._rng.ndraws = V.int("rng_pos", 0, None)
    buf = io.StringIO()
    try:
        ro = RestartObserver(mc, file=buf, interval=1, mode="w")
        import ase.io.jsonio as J

        sent = c08.Sentinels()
        orig = J.MyEncoder.default

        def default(self, obj):
            if isinstance(obj, (SR, SI)):
                return sent.enc(obj)
            if isinstance(obj, np.ndarray) and obj.dtype == object:
                flat = [sent.enc(x) if isinstance(x, (SR, SI)) else x for x in obj.ravel().tolist()]
                return orig(self, np.array(flat, dtype=float).reshape(obj.shape))
            return orig(self, obj)

        J.MyEncoder.default = default
        try:
            ro()
        finally:
            J.MyEncoder.default = orig
        buf.seek(0)
        data = _symatoms(sent.dec(J.read_json(buf)))
    except Exception as ex:  # noqa: BLE001
        V.fail("restart-file-written", info=info + ":" + type(ex).__name__ + ":" + str(ex)[:70])
        return
    try:
        mc2 = get_class(data["name"]).from_dict(data)
    except Exception as ex:  # noqa: BLE001
        V.fail("rebuilt-in-the-documented-way", info=info + ":" + type(ex).__name__ + ":" + str(ex)[:70])
        return
    V.reach("rebuilt")
    V.prove(type(mc2) is type(mc), "same-driver-class", info=info)
    V.prove(mc2.context.rng is mc2._rng, "context-shares-the-restored-generator", info=info)
    r1, r2 = mc._rng, mc2._rng
    gd = []
    c08.equal_value(V, r1.ident, r2.ident, "generator.stream", gd)
    c08.equal_value(V, r1.ndraws, r2.ndraws, "generator.position", gd)
    V.prove(not gd, "generator-state-restored", info=info)
    diffs = _state_diffs(V, mc, mc2)
    V.prove(not diffs, "state-restored", info=info + ":" + ",".join(sorted({d.split(":")[0].split("[")[0] for d in diffs}))[:80])
    if diffs or gd:
        return
    # (b) one further step on both, same draw symbols
    mc2.atoms.calc = mcsim.ModelCalc("caching", pes)
    try:
        mc2.validate_simulation()
        h1 = mcsim.run_trial(mc)
        h2 = mcsim.run_trial(mc2)
    except (symx.PathAbort, symx.BoundHit, symx.Unsupported):
        raise
    except Exception as ex:  # noqa: BLE001
        V.fail("continues-after-restart", info=info + ":" + type(ex).__name__ + ":" + str(ex)[:70])
        return
    v1 = None if h1[1] is None else bool(h1[1])
    v2 = None if h2[1] is None else bool(h2[1])
    V.reach({None: "failed", True: "accepted", False: "rejected"}[v1])
    V.prove(str(h1[0]) == str(h2[0]) and v1 == v2, "same-move-and-verdict", info=info)
    d2 = _state_diffs(V, mc, mc2)
    V.prove(not d2, "same-state-after-the-next-step", info=info + ":" + ",".join(sorted({d.split(":")[0].split("[")[0] for d in d2}))[:80])


def _concrete_restart(V, driver, table, n, info, nsteps=6):
    """Replay: the real code with the real PCG64 and a real calculator."""
    from ase.calculators.lj import LennardJones

    from quansino.registry import get_class
    import ase.io.jsonio as J

    class _Geo(symx.Replay):
        def array(self, name, shape):
            if name == "x":  # a sensible, non-degenerate geometry
                return np.array([[0.9 + 1.35 * i, 1.1 + 0.4 * (i % 2), 1.3 + 0.3 * i] for i in range(shape[0])])
            if name == "ex":
                return np.array([[0.0, 0.0, 0.0], [0.0, 0.0, 1.1]])[: shape[0]]
            if name == "S":
                return np.diag([0.01, 0.02, 0.0]) + 0.005
            return super().array(name, shape)

        def real(self, name, lo=None, hi=None, **k):
            if name not in self.sym and lo is not None and hi is not None:
                return lo + 0.37 * (hi - lo)
            return super().real(name, lo, hi, **k)

    import re as _re

    # geometry/momenta come from _Geo (array elements are named x00, p01, ex00, ...); every other symbol of the witness is used
    Vc = _Geo({"symbols": {k: v for k, v in V.sym.items() if not _re.fullmatch(r"(x|p|ex)\d+", k)}, "draws": []})

    def fresh():
        mc, atoms, pes = _make(Vc, driver, table, n)
        atoms.calc = LennardJones(sigma=1.0, epsilon=0.05, rc=3.0)
        return mc, atoms

    with tempfile.TemporaryDirectory() as td:
        path = os.path.join(td, "restart.json")
        def labels_of(mc_):
            out = []
            for nm, st_ in mc_.moves.items():
                for m_ in getattr(st_.move, "moves", [st_.move]):
                    if hasattr(m_, "labels"):
                        out.append((nm, [int(x) for x in m_.labels], m_.default_label))
            return out

        ref, ratoms = fresh()
        ref.run(nsteps)
        final = (np.array(ratoms.positions), np.array(ratoms.cell.array), len(ratoms), ref.step_count, labels_of(ref), getattr(ref.context, "number_of_exchange_particles", None), [(str(a), None if b is None else bool(b)) for a, b in ref.move_history])
        bad = []
        for k in range(0, nsteps):
            mc, atoms = fresh()
            from quansino.io.restart import RestartObserver

            ro = RestartObserver(mc, file=path, interval=1, mode="w")
            mc.file_manager.attach_observer("restart", ro)
            mc.run(k)
            ro.close()
            with open(path) as fh:
                data = J.read_json(fh)
            try:
                mc2 = get_class(data["name"]).from_dict(data)
                mc2.atoms.calc = LennardJones(sigma=1.0, epsilon=0.05, rc=3.0)
                mc2.run(nsteps - k)
            except Exception as ex:  # noqa: BLE001
                bad.append(f"k={k}:{type(ex).__name__}:{str(ex)[:60]}")
                continue
            a2 = mc2.atoms
            same = len(a2) == final[2] and np.array_equal(np.array(a2.positions), final[0]) and np.array_equal(np.array(a2.cell.array), final[1]) and mc2.step_count == final[3]
            same = same and labels_of(mc2) == final[4] and getattr(mc2.context, "number_of_exchange_particles", None) == final[5] and [(str(a), None if b is None else bool(b)) for a, b in mc2.move_history] == final[6]
            if not same:
                bad.append(f"k={k}:trajectory differs")
        ok = not bad
        for lab in ("restart-file-written", "rebuilt-in-the-documented-way", "state-restored", "generator-state-restored", "continues-after-restart", "same-move-and-verdict", "same-state-after-the-next-step", "context-shares-the-restored-generator", "same-driver-class", "parameter-preserved"):
            V.prove(ok, lab, info=info + ":" + ";".join(bad[:3]))


class CommCalc:
    """Calculator with committee data.  Every quantity is an uninterpreted function of the positions (sym)
    or a fixed smooth function of them (replay); `results` is filled by an evaluation only, so a calculator
    re-attached after a restart starts empty, as a real one does."""

    MEMBERS = 2

    def __init__(self, mode, n, active=None):
        self.mode, self.n = mode, n
        # coordinates that feel a force in sym mode (all by default)
        self.active = tuple((i, c) for i in range(n) for c in range(3)) if active is None else tuple(active)
        self.results = {}
        self.nevals = 0
        if mode == "sym":
            k = 3 * n
            R = [z3.RealSort()] * (k + 1)
            self.F = [[z3.Function(f"fbF{i}{c}", *R) for c in range(3)] for i in range(n)]
            self.C = [[[z3.Function(f"fbC{m}{i}{c}", *R) for c in range(3)] for i in range(n)] for m in range(self.MEMBERS)]
            self.En = [z3.Function(f"fbE{m}", *R) for m in range(self.MEMBERS)]

    def _eval(self, atoms):
        n, M = self.n, self.MEMBERS
        self.nevals += 1
        if self.mode == "sym":
            args = [lift(v) for v in np.asarray(atoms.positions, dtype=object).ravel().tolist()]
            F = np.empty((n, 3), dtype=object)
            C = np.empty((M, n, 3), dtype=object)
            for i in range(n):
                for c in range(3):
                    F[i, c] = SR(self.F[i][c](*args)) if (i, c) in self.active else 0.0
                    for m in range(M):
                        C[m, i, c] = SR(self.C[m][i][c](*args))
            En = np.array([SR(f(*args)) for f in self.En], dtype=object)
            self.results = {"forces": F, "energy": En[0], "forces_comm": C, "energies": En}
            return
        x = np.asarray(atoms.positions, dtype=float)
        r0 = np.array([[1.0, 1.0, 1.0], [2.5, 1.2, 1.1], [1.7, 2.6, 1.3]])[:n]
        F = -(x - r0) - 0.3 * (x - r0) ** 3
        C = np.array([F * (1.0 + 0.07 * (m + 1) * np.cos(3.0 * x + m)) for m in range(M + 1)])
        e = float(0.5 * ((x - r0) ** 2).sum() + 0.075 * ((x - r0) ** 4).sum())
        En = np.array([e * (1.0 + 0.05 * np.sin(x.sum() + m)) for m in range(M + 1)])
        self.results = {"forces": F, "energy": e, "forces_comm": C, "energies": En}

    def get_forces(self, atoms=None):
        self._eval(atoms)
        return np.array(self.results["forces"]).copy()

    def get_potential_energy(self, atoms=None, force_consistent=False):
        self._eval(atoms)
        return self.results["energy"]


FB_UNWIND = 2


def _engine_gap(ex):
    """A numpy loop that cannot take the symbolic proxies is a gap of the engine, not a property failure."""
    msg = str(ex)
    if isinstance(ex, symx.Unsupported):
        raise ex
    if isinstance(ex, TypeError) and ("ufunc" in msg or "not supported between" in msg) and any(t in msg for t in ("SR", "SI", "SB")):
        raise symx.Unsupported("numpy operation without a symbolic counterpart: " + msg[:120])


def _fb_make(V, adaptive, scheme, upd, n, fixcom, power, custom_masses, restart_file=None):
    from ase.constraints import FixCom

    from quansino.mc.fbmc import AdaptiveForceBias, ForceBias

    sym = V.mode == "sym"
    atoms = mcsim.make_atoms(V, n, momenta=True, extras=False)
    if fixcom:
        atoms.set_constraint(FixCom())
    # more than one atom, or the adaptive driver: only one coordinate feels a force (each force-bearing coordinate multiplies the paths by 4)
    atoms.calc = CommCalc(V.mode, n, active=None if (n == 1 and not adaptive) else ((0, 0),))
    T = V.real("T", lo=10, hi=3000)
    kw = dict(seed=77)
    if restart_file is not None:
        kw.update(restart_file=restart_file, logging_mode="w")
    import warnings

    with warnings.catch_warnings():
        warnings.simplefilter("ignore")
        if adaptive:
            fb = AdaptiveForceBias(atoms, min_delta=V.real("dmin", lo=0.001, hi=0.1), max_delta=V.real("dmax", lo=0.1, hi=1), temperature=T, scheme=scheme, reference_variance=V.real("refvar", lo=0.01, hi=2), update_function=upd, **kw)
        else:
            fb = ForceBias(atoms, delta=V.real("delta", lo=0.001, hi=1), temperature=T, **kw)
    if power == "dict":
        fb.masses_scaling_power = {"Cu": 0.3, "Ag": 0.2}
    elif power == "array":
        fb.masses_scaling_power = np.array([[0.2, 0.25, 0.3], [0.35, 0.15, 0.1], [0.25, 0.3, 0.2]][:n])
    elif power == "float":
        fb.masses_scaling_power = 0.4
    if custom_masses:
        fb.update_masses(np.array([[30.0, 60.0, 90.0], [100.0, 110.0, 45.0], [70.0, 20.0, 50.0]][:n]))
    pw = fb.masses_scaling_power
    if sym and isinstance(pw, np.ndarray) and pw.dtype == object:
        # the numpy shim builds object arrays; concrete contents go back to float64 (through the public setter) so
        # that np.power takes numpy's float loop on both sides (Python's float pow differs from it in the last bit)
        fb.masses_scaling_power = pw.astype(float)
    return fb, atoms


def _fb_diffs(V, a, b, after_step=False):
    diffs = []
    for nm in ("step_count", "_seed", "temperature", "masses_scaling_power", "shaped_masses", "gamma_max_value"):
        c08.equal_value(V, getattr(a, nm), getattr(b, nm, None), nm, diffs)
    adaptive = hasattr(a, "min_delta")
    if adaptive:
        for nm in ("min_delta", "max_delta", "reference_variance", "scheme", "update_function"):
            c08.equal_value(V, getattr(a, nm), getattr(b, nm, None), nm, diffs)
    if not adaptive or after_step:
        c08.equal_value(V, np.asarray(a.delta, dtype=object), np.asarray(b.delta, dtype=object), "delta", diffs)
    x, y = a.atoms, b.atoms
    if len(x) != len(y) or list(x.numbers) != list(y.numbers) or [type(c).__name__ for c in x.constraints] != [type(c).__name__ for c in y.constraints]:
        diffs.append("atoms")
    else:
        c08.equal_value(V, np.asarray(x.arrays["positions"]), np.asarray(y.arrays["positions"]), "atoms.positions", diffs)
        c08.equal_value(V, np.asarray(x.cell.array), np.asarray(y.cell.array), "atoms.cell", diffs)
        c08.equal_value(V, np.asarray(x.get_momenta()), np.asarray(y.get_momenta()), "atoms.momenta", diffs)
        c08.equal_value(V, np.asarray(x.get_masses()), np.asarray(y.get_masses()), "atoms.masses", diffs)
    return diffs


def sc_forcebias(V, adaptive=False, scheme="forces", upd="tanh", n=1, fixcom=False, power="default", custom_masses=False, unwind=FB_UNWIND, _opts=None):
    """ForceBias / AdaptiveForceBias offer a restart file too: arbitrary state -> real RestartObserver -> real
    JSON codec -> get_class(name).from_dict -> calculator re-attached -> state equality and one further step in
    lockstep with the live simulation on the same draw symbols."""
    from quansino.io.restart import RestartObserver
    from quansino.registry import get_class

    name = "AdaptiveForceBias" if adaptive else "ForceBias"
    info = f"{name}:scheme={scheme}:update={upd}:n={n}:fixcom={fixcom}:power={power}:masses={custom_masses}"
    if V.mode != "sym":
        return _concrete_fb_restart(V, adaptive, scheme, upd, fixcom, power, custom_masses, info)
    E().no_axioms = ("exp", "tanh", "sqrt")
    try:
        fb, atoms = _fb_make(V, adaptive, scheme, upd, n, fixcom, power, custom_masses)
    except (symx.PathAbort, symx.BoundHit, symx.Unsupported):
        raise
    except Exception as ex:  # noqa: BLE001
        V.fail("restart-file-written", info=info + ":constructor:" + type(ex).__name__ + ":" + str(ex)[:60])
        return
    fb.step_count = V.int("k", 0, None)
    fb._rng.ident = V.int("rng_ident", 0, None)
    fb._rng.ndraws = V.int("rng_pos", 0, None)
    # the live calculator has been evaluated at the current positions (every real step ends with an evaluation)
    atoms.calc._eval(atoms)
    buf = io.StringIO()
    try:
        ro = RestartObserver(fb, file=buf, interval=1, mode="w")
        import ase.io.jsonio as J

        sent = c08.Sentinels()
        orig = J.MyEncoder.default

        def default(self, obj):
            if isinstance(obj, (SR, SI)):
                return sent.enc(obj)
            if isinstance(obj, np.ndarray) and obj.dtype == object:
                flat = [sent.enc(x) if isinstance(x, (SR, SI)) else x for x in obj.ravel().tolist()]
                return orig(self, np.array(flat, dtype=float).reshape(obj.shape))
            return orig(self, obj)

        J.MyEncoder.default = default
        try:
            ro()
        finally:
            J.MyEncoder.default = orig
        buf.seek(0)
        data = _symatoms(sent.dec(J.read_json(buf)))
    except Exception as ex:  # noqa: BLE001
        _engine_gap(ex)
        V.fail("restart-file-written", info=info + ":" + type(ex).__name__ + ":" + str(ex)[:70])
        return
    try:
        import warnings

        with warnings.catch_warnings():
            warnings.simplefilter("ignore")
            fb2 = get_class(data["name"]).from_dict(data)
    except Exception as ex:  # noqa: BLE001
        V.fail("rebuilt-in-the-documented-way", info=info + ":" + type(ex).__name__ + ":" + str(ex)[:70])
        return
    V.reach("rebuilt")
    V.prove(type(fb2) is type(fb), "same-driver-class", info=info)
    gd = []
    c08.equal_value(V, fb._rng.ident, fb2._rng.ident, "generator.stream", gd)
    c08.equal_value(V, fb._rng.ndraws, fb2._rng.ndraws, "generator.position", gd)
    V.prove(not gd, "generator-state-restored", info=info)
    diffs = _fb_diffs(V, fb, fb2)
    V.prove(not diffs, "state-restored", info=info + ":" + ",".join(sorted({d.split(":")[0].split("[")[0] for d in diffs}))[:80])
    if diffs or gd:
        return
    fb2.atoms.calc = CommCalc("sym", n, active=atoms.calc.active)  # re-attached: same potential, nothing evaluated yet
    fb2.atoms.calc.F, fb2.atoms.calc.C, fb2.atoms.calc.En = atoms.calc.F, atoms.calc.C, atoms.calc.En
    calls = [0]
    orig_gz = fb.get_zeta

    def gz():
        calls[0] += 1
        if calls[0] > unwind:
            E().reach("cut-at-unwind-bound")
            raise symx.PathAbort()
        return orig_gz()

    fb.get_zeta = gz
    try:
        import warnings

        with warnings.catch_warnings():
            warnings.simplefilter("ignore")
            fb.step()
            fb.step_count += 1
            fb2.step()
            fb2.step_count += 1
    except (symx.PathAbort, symx.BoundHit, symx.Unsupported):
        raise
    except Exception as ex:  # noqa: BLE001
        V.fail("continues-after-restart", info=info + ":" + type(ex).__name__ + ":" + str(ex)[:70])
        return
    V.reach("stepped")
    d2 = _fb_diffs(V, fb, fb2, after_step=True)
    gd = []
    c08.equal_value(V, fb._rng.ident, fb2._rng.ident, "generator.stream", gd)
    c08.equal_value(V, fb._rng.ndraws, fb2._rng.ndraws, "generator.position", gd)
    V.prove(not d2 and not gd, "same-state-after-the-next-step", info=info + ":" + ",".join(sorted({d.split(":")[0].split("[")[0] for d in d2 + gd}))[:80])


def _concrete_fb_restart(V, adaptive, scheme, upd, fixcom, power, custom_masses, info, nsteps=5, n=3):
    """Replay: real PCG64, real files, a deterministic calculator with committee data (no neighbour list)."""
    import warnings

    import ase.io.jsonio as J

    from quansino.registry import get_class

    class _Geo(symx.Replay):
        def array(self, name, shape):
            if name == "x":
                # (no coordinate sits exactly at the minimum of CommCalc's replay potential: zero committee forces
                # make the adaptive driver divide 0 by 0, which is outside this property)
                return np.array([[1.1, 1.06, 0.93], [2.4, 1.3, 1.02], [1.6, 2.7, 1.4]])[: shape[0]]
            if name == "p":
                return np.zeros(shape)
            return super().array(name, shape)

        def real(self, name, lo=None, hi=None, **k):
            if name not in self.sym and lo is not None and hi is not None:
                return lo + 0.3718281828459045 * (hi - lo)
            return super().real(name, lo, hi, **k)

    # the experiment does not depend on the witness (and arbitrary witness values of T/delta can make the real
    # rejection sampling run for ever): fixed, non-round parameter values
    Vc = _Geo({"symbols": {}, "draws": []})
    warnings.simplefilter("ignore")

    def fresh(path=None):
        return _fb_make(Vc, adaptive, scheme, upd, n, fixcom, power, custom_masses, restart_file=path)

    import signal

    class _Hung(Exception):
        pass

    def _alarm(*a):
        raise _Hung()

    old_handler = signal.signal(signal.SIGALRM, _alarm)
    signal.alarm(90)  # the real rejection sampling has no iteration bound: a run that does not come back is a failure
    try:
        return _concrete_fb_body(V, fresh, nsteps, n, info, J, get_class, Vc)
    except _Hung:
        for lab in ("continues-after-restart", "same-state-after-the-next-step", "parameter-preserved"):
            V.fail(lab, info=info + ":run-did-not-terminate")
    finally:
        signal.alarm(0)
        signal.signal(signal.SIGALRM, old_handler)


def _concrete_fb_body(V, fresh, nsteps, n, info, J, get_class, Vc):
    ref, ratoms = fresh()
    ref.run(nsteps)
    want = (np.array(ratoms.positions), np.array(ratoms.get_momenta()), ref.step_count, np.array(ref.delta, dtype=float))
    written, rebuilt, state, cont = [], [], [], []
    with tempfile.TemporaryDirectory() as td:
        for k in range(nsteps):
            path = os.path.join(td, f"r{k}.json")
            try:
                a, _ = fresh(path)
                a.run(k)
                a.close()
                with open(path) as fh:
                    data = J.read_json(fh)
            except Exception as ex:  # noqa: BLE001
                written.append(f"k={k}:{type(ex).__name__}:{str(ex)[:50]}")
                continue
            try:
                b = get_class(data["name"]).from_dict(data)
            except Exception as ex:  # noqa: BLE001
                rebuilt.append(f"k={k}:{type(ex).__name__}:{str(ex)[:50]}")
                continue
            d = _fb_diffs(Vc, a, b)
            if d or b._rng.bit_generator.state != a._rng.bit_generator.state:
                state.append(f"k={k}:" + ",".join(sorted({x.split(":")[0] for x in d}) or ["generator"]))
            try:
                b.atoms.calc = CommCalc("replay", n)
                b.run(nsteps - k)
                same = np.array_equal(np.array(b.atoms.positions), want[0]) and np.array_equal(np.array(b.atoms.get_momenta()), want[1]) and b.step_count == want[2] and np.array_equal(np.array(b.delta, dtype=float), want[3])
                if not same:
                    cont.append(f"k={k}:trajectory differs")
            except Exception as ex:  # noqa: BLE001
                cont.append(f"k={k}:{type(ex).__name__}:{str(ex)[:50]}")
    V.prove(not written, "restart-file-written", info=info + ":" + ";".join(written[:3]))
    V.prove(not rebuilt, "rebuilt-in-the-documented-way", info=info + ":" + ";".join(rebuilt[:3]))
    V.prove(not rebuilt and not written, "same-driver-class", info=info)
    V.prove(not state, "state-restored", info=info + ":" + ";".join(state[:3]))
    V.prove(not state, "generator-state-restored", info=info + ":" + ";".join(state[:3]))
    V.prove(not state and not cont, "parameter-preserved", info=info + ":" + ";".join((state + cont)[:3]))
    V.prove(not cont, "continues-after-restart", info=info + ":" + ";".join(cont[:3]))
    V.prove(not cont, "same-state-after-the-next-step", info=info + ":" + ";".join(cont[:3]))
    V.reach("rebuilt")
    V.reach("stepped")


SCENARIOS = {"restart": sc_restart, "forcebias": sc_forcebias}
_replay = generic_replay(SCENARIOS)


def replay(data):
    # the concrete restart experiment does not depend on the witness values beyond the parameters:
    # run it once (not once per seeded trial)
    data = dict(data)
    w = dict(data.get("witness") or {})
    w.pop("random_trials", None)
    data["witness"] = w
    return _replay(data)


def _plan(tier):
    P = []
    for d, tabs in TABLES.items():
        for t in tabs if tier != "quick" else tabs[:2]:
            P.append(("restart", dict(driver=d, table=t, n=2 if t not in ("dmol", "emol") else 3), ("rebuilt",)))
    R = ("rebuilt", "stepped")
    P.append(("forcebias", dict(adaptive=False, n=1), R))
    P.append(("forcebias", dict(adaptive=False, n=2, fixcom=True, power="dict", custom_masses=True, unwind=1, _opts={"fork_timeout_ms": 250}), R))
    P.append(("forcebias", dict(adaptive=True, scheme="forces", upd="tanh", n=1), R))
    P.append(("forcebias", dict(adaptive=True, scheme="energy", upd="exp", n=1, power="float"), R))
    if tier != "quick":
        P.append(("forcebias", dict(adaptive=False, n=1, power="array", custom_masses=True), R))
        P.append(("forcebias", dict(adaptive=True, scheme="forces", upd="exp", n=2, fixcom=True, power="dict", unwind=1, _opts={"fork_timeout_ms": 250}), R))
        P.append(("forcebias", dict(adaptive=True, scheme="energy", upd="tanh", n=1, custom_masses=True), R))
    P.append(("restart", dict(driver="Canonical", table="d", n=2), (), "state-restored"))
    return P


def run(rep: Report):
    tier = rep.tier
    opts = {"prove_timeout_ms": 10000, "fork_timeout_ms": 1500, "seed": rep.seed, "scenario_wall_s": 900 if tier == "quick" else 1200}
    run_plan(rep, _plan(tier), SCENARIOS, opts)
    rep.bounds = {"drivers x tables": {d: list(t) for d, t in TABLES.items()}, "restart point": "symbolic step counter k >= 0, symbolic generator position, symbolic reference energies (arbitrary state)", "continuation": "1 step after the restart (inductive through state equality)", "atoms": "2-3"}
    rep.assumptions = ["numpy PCG64/Generator replaced by a stub whose state is a (stream, position) token and whose draws are symbols named by that token (equal states => equal draws)", "calculator re-attached after the restart (documented: calculators are not serialized)", "numeric parameters symbolic, carried through the real JSON codec as sentinels"]
    rep.stubs = ["TokenRNG/TokenBitGen", "sentinel hook in ase jsonio", "ModelCalc over an uninterpreted PES"]
    rep.outside = ["calculator state", "open file positions of the observers", "ForceBias with more than one force-bearing coordinate for 2 atoms; rejection loop beyond 2 rounds"]
    rep.extra["explanation"] = "restart file -> rebuilt simulation: field-by-field state equality for an arbitrary symbolic state plus one-step bisimulation on shared draw symbols"
