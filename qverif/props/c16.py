"""C16 -- output files are well-formed after every write and after a crash at any point.

The real Logger / TrajectoryObserver / RestartObserver are called against a recording file during
a short real grand-canonical run; that yields, from the current source, the OPERATION PATTERN of
one observer call (write*, flush / seek(0), truncate(), write*, flush).  A file-state model
(durable chunks, user-space buffer, write position) then executes two consecutive calls j-1 and j
with SYMBOLIC document lengths (growing or shrinking), a SYMBOLIC crash point between any two
operations and a SYMBOLIC persisted prefix of whatever is still buffered; the solver must prove
the well-formedness clauses for every value.  Replay: a real process is killed at the flagged
operation and the real file on disk is inspected.
"""
from __future__ import annotations

import json
import os
import subprocess
import sys
import tempfile

import numpy as np
import z3

from .. import symx
from ..runner import PY, ROOT, Report, generic_replay, run_plan
from ..symx import E, SB, SI, lift
from .c09 import _true

ID = "C16"
LEVEL = "other"


# ------------------------------------------------------------------ pattern extraction from the real observers
class RecFile:
    def __init__(self):
        self.ops = []
        self.closed = False
        self.name = "rec"

    def write(self, s):
        self.ops.append(("write", len(s)))
        return len(s)

    def flush(self):
        self.ops.append(("flush",))

    def seek(self, off, whence=0):
        self.ops.append(("seek", off, whence))

    def truncate(self, size=None):
        self.ops.append(("truncate", size))

    def seekable(self):
        return True

    def writable(self):
        return True

    def tell(self):
        return 0

    def close(self):
        self.closed = True


STATES = {"steady": (3, 3), "to-empty": (1, 0), "from-empty": (0, 1), "grow": (1, 3)}


def _resize(atoms, n):
    """Bring the simulated system to n atoms (n == 0: an empty box, legal in a grand-canonical run)."""
    from ase import Atoms

    if len(atoms) > n:
        del atoms[list(range(n, len(atoms)))]
    while len(atoms) < n:
        atoms.extend(Atoms("Cu", positions=[[0.7 + 1.3 * len(atoms), 1.2, 1.4]]))


def _sim():
    from ase import Atoms
    from ase.calculators.lj import LennardJones

    from quansino.mc.gcmc import GrandCanonical
    from quansino.moves.exchange import ExchangeMove

    atoms = Atoms("Cu3", positions=[[0.9, 1.1, 1.3], [2.3, 1.5, 1.6], [3.6, 1.1, 1.9]], cell=[6.0, 6.0, 6.0], pbc=True)
    atoms.calc = LennardJones(sigma=1.0, epsilon=0.05, rc=3.0)
    mc = GrandCanonical(atoms, exchange_atoms=Atoms("Cu"), temperature=800.0, chemical_potential=0.5, number_of_exchange_particles=3, max_cycles=1, seed=3)
    mc.add_move(ExchangeMove(np.arange(3)), name="ex")
    return mc, atoms


def _collapse(ops):
    out = []
    for o in ops:
        if o[0] == "write" and out and out[-1][0] == "write":
            continue
        out.append(o)
    return out


def pattern(kind, mode="w", state="steady"):
    """Operations of the header (logger only) and of ONE observer call, from the current source.
    `mode` is the observer's mode argument (a user-supplied handle keeps whatever mode it was opened with)."""
    from quansino.io.logger import Logger
    from quansino.io.restart import RestartObserver
    from quansino.io.trajectory import TrajectoryObserver

    mc, atoms = _sim()
    n1, n2 = STATES[state]
    _resize(atoms, n1)
    f = RecFile()
    if kind == "logger":
        obs = Logger(f, interval=1, mode=mode)
        obs.add_mc_fields(mc)
        obs.write_header()
        header = [(o[0],) for o in f.ops]
        f.ops.clear()
    elif kind == "trajectory":
        obs = TrajectoryObserver(atoms, f, interval=1, mode=mode)
        header = []
    else:
        obs = RestartObserver(mc, f, interval=1, mode=mode)
        header = []
    obs()
    first = [(o[0],) + tuple(o[1:]) if o[0] in ("seek", "truncate") else (o[0],) for o in f.ops]
    f.ops.clear()
    _resize(atoms, n2)
    obs()
    second = [(o[0],) + tuple(o[1:]) if o[0] in ("seek", "truncate") else (o[0],) for o in f.ops]
    return header, first, second


# ------------------------------------------------------------------ file-state model
class FileModel:
    """Durable content D and user-space buffer B as lists of chunks (tag, length); lengths are symbolic
    integers.  `append` = the handle was opened in append mode (every write lands at the end);
    otherwise `pos` is the offset of the next byte (the end of the file after a completed call)."""

    def __init__(self, V, initial, append=False):
        self.V = V
        self.D = list(initial)
        self.B = []
        self.append = append
        self.pos = self._len(self.D)

    def _len(self, chunks):
        t = 0
        for _, n in chunks:
            t = t + n
        return t

    def _take(self, chunks, n):
        out = []
        rest = n
        for tag, ln in chunks:
            if bool(rest <= 0):
                break
            if bool(rest >= ln):
                out.append((tag, ln))
                rest = rest - ln
            else:
                out.append((tag + ":head", rest))
                rest = 0
        return out

    def _drop(self, chunks, n):
        out = []
        rest = n
        for tag, ln in chunks:
            if bool(rest <= 0):
                out.append((tag, ln))
                continue
            if bool(rest >= ln):
                rest = rest - ln
                continue
            out.append((tag + ":tail", ln - rest))
            rest = 0
        return out

    def _apply(self, chunks):
        if not chunks:
            return
        n = self._len(chunks)
        end = self._len(self.D)
        at = end if self.append else self.pos
        if bool(at > end):
            self.D = self.D + [("NUL-gap", at - end)] + list(chunks)
        else:
            self.D = self._take(self.D, at) + list(chunks) + self._drop(self.D, at + n)
        self.pos = at + n

    def op(self, kind, tag=None, length=None, arg=None):
        if kind == "write":
            self.B.append((tag, length))
            return
        self._apply(self.B)  # flush, seek and truncate all push the buffer first
        self.B = []
        if kind == "seek":
            self.pos = arg if arg is not None else 0
        elif kind == "truncate":
            size = self.pos if arg is None else arg
            end = self._len(self.D)
            if bool(size < end):
                self.D = self._take(self.D, size)
            elif bool(size > end):
                self.D = self.D + [("NUL-gap", size - end)]

    def crash(self, persisted):
        """Process death: buffered bytes are lost except a prefix the library may already have pushed."""
        if self.B:
            self._apply(self._take(self.B, persisted))
        self.B = []


def _doc_chunks(tag, lens):
    return [(f"{tag}#{i}", l) for i, l in enumerate(lens)]


def _sym_lens(V, name, k):
    return [V.int(f"{name}_{i}", 1, None) for i in range(k)]


def _same_chunks(a, b):
    return len(a) == len(b) and all(x[0] == y[0] and symx.same_term(x[1], y[1]) if symx.is_sym(x[1]) or symx.is_sym(y[1]) else x == y for x, y in zip(a, b))


def sc_observer(V, kind="logger", mode="w", append_handle=False, state="steady"):
    if V.mode != "sym":
        return _real_crash(V, kind, mode, append_handle, state)
    header, first, second = pattern(kind, mode, state)
    kinds2 = [o[0] for o in second]
    nw1 = sum(1 for o in first if o[0] == "write")
    nw2 = sum(1 for o in second if o[0] == "write")
    info = f"{kind}:mode={mode}:append_handle={append_handle}:state={state}:pattern={'/'.join(kinds2)}"
    # the number of write() calls of one record may depend on the number of atoms; everything else may not
    V.prove(_collapse(first) == _collapse(second), "same-pattern-every-call", info=info)
    hdr = _doc_chunks("header", _sym_lens(V, "h", sum(1 for o in header if o[0] == "write")))
    prev = _doc_chunks("doc1", _sym_lens(V, "a", nw1))
    cur = _doc_chunks("doc2", _sym_lens(V, "b", nw2))
    # state after the completed call j-1 (induction hypothesis = the post-condition proved below)
    if kind == "restart":
        initial = list(prev)
    else:
        initial = hdr + [("earlier-records", V.int("earlier", 0, None))] + list(prev)
    fm = FileModel(V, initial, append=append_handle)
    nops = len(second)
    c = V.choice("crash_after_op", nops + 1)  # ops [0,c) complete; c == nops: no crash
    wi = 0
    for i, o in enumerate(second):
        if i >= c:
            break
        if o[0] == "write":
            fm.op("write", cur[wi][0], cur[wi][1])
            wi += 1
        else:
            fm.op(o[0], arg=o[1] if len(o) > 1 else None)
    crashed = c < nops
    V.reach("crash" if crashed else "complete")
    if crashed:
        q = V.int("persisted", 0, None)
        if fm.B:
            V.assume(q <= fm._len(fm.B))
        fm.crash(q)
    D = fm.D
    where = info + f":crash_after_op={c if crashed else 'none'}"
    if not crashed:
        V.prove(not fm.B, "every-call-ends-flushed", info=where)
        if kind == "restart":
            V.prove(nw2 >= 1 and _same_chunks(D, cur), "restart-file==exactly-the-latest-document", info=where + f":file={[t for t, _ in D]}")
        else:
            V.prove(nw2 >= 1 and _same_chunks(D, initial + cur), "one-complete-record-appended-earlier-bytes-untouched", info=where + f":writes={nw2}:file={[t for t, _ in D]}")
        return
    if kind == "restart":
        ok = _same_chunks(D, prev) or _same_chunks(D, cur)
        V.prove(ok, "after-a-crash-the-restart-file-is-a-complete-saved-document", info=where + f":file={[t for t, _ in D] or 'EMPTY'}")
    else:
        ok = len(D) >= len(initial) and _same_chunks(D[: len(initial)], initial)
        V.prove(ok, "after-a-crash-completed-records-are-intact", info=where + f":file={[t for t, _ in D]}")


# ------------------------------------------------------------------ replay: a real crash
_CHILD = r'''
import json, os, sys, warnings
warnings.simplefilter("ignore")
sys.path.insert(0, %(root)r)
from qverif.props import c16
kind, path, crash_at, omode, hmode, state = %(kind)r, %(path)r, %(crash)d, %(omode)r, %(hmode)r, %(state)r
mc, atoms = c16._sim()
n1, n2 = c16.STATES[state]
class Proxy:
    def __init__(self, f): self.f = f; self.n = 0; self.armed = False
    def _tick(self):
        if self.armed:
            if self.n == crash_at: os._exit(0)
            self.n += 1
    def write(self, s): self._tick(); return self.f.write(s)
    def flush(self): self._tick(); return self.f.flush()
    def seek(self, *a): self._tick(); return self.f.seek(*a)
    def truncate(self, *a): self._tick(); return self.f.truncate(*a)
    def seekable(self): return True
    def close(self): pass
    closed = False
f = Proxy(open(path, hmode))
from quansino.io.logger import Logger
from quansino.io.restart import RestartObserver
from quansino.io.trajectory import TrajectoryObserver
if kind == "logger":
    obs = Logger(f, interval=1, mode=omode); obs.add_mc_fields(mc); obs.write_header()
elif kind == "trajectory":
    obs = TrajectoryObserver(atoms, f, interval=1, mode=omode)
else:
    obs = RestartObserver(mc, f, interval=1, mode=omode)
if state == "steady":
    mc.run(2)      # grow/shrink the state a little
else:
    c16._resize(atoms, n1)
obs()              # call j-1, complete
f.f.flush()
with open(path) as fh: before = fh.read()
with open(path + ".before", "w") as fh: fh.write(before)
if state == "steady":
    del atoms[[len(atoms) - 1]]   # the state shrinks before call j
else:
    c16._resize(atoms, n2)
f.armed = True
obs()              # call j, killed after `crash_at` operations (or completes)
with open(path + ".completed", "w") as fh: fh.write("1")
os._exit(0)        # no implicit flush: whatever the observer left in the buffer is lost
'''


def _real_crash(V, kind, mode="w", append_handle=False, state="steady"):
    import ase.io.jsonio as J

    c = V.int("crash_after_op", 0, None)
    with tempfile.TemporaryDirectory() as td:
        path = os.path.join(td, "out.txt")
        code = _CHILD % {"root": ROOT, "kind": kind, "path": path, "crash": c, "omode": mode, "hmode": "a" if append_handle else "w", "state": state}
        env = dict(os.environ)
        p = subprocess.run([sys.executable, "-c", code], capture_output=True, text=True, timeout=120, env=env)
        before = open(path + ".before").read() if os.path.exists(path + ".before") else None
        after = open(path).read() if os.path.exists(path) else ""
        completed = os.path.exists(path + ".completed")
    if before is None:
        raise symx.ReplayMismatch("child failed: " + p.stderr[-200:])
    if kind == "restart":
        ok = False
        try:
            J.decode(after)
            ok = True
        except Exception:
            ok = False
        V.prove(ok, "after-a-crash-the-restart-file-is-a-complete-saved-document", info=f"restart:bytes={len(after)}")
        V.prove(ok, "restart-file==exactly-the-latest-document", info="restart")
        if completed:
            V.prove(ok, "every-call-ends-flushed", info="restart")
    else:
        ok = after.startswith(before)
        V.prove(ok, "after-a-crash-completed-records-are-intact", info=kind)
        if completed:
            full = ok and len(after) > len(before) and after.endswith("\n")
            V.prove(full, "one-complete-record-appended-earlier-bytes-untouched", info=kind)
            V.prove(full, "every-call-ends-flushed", info=kind)


def sc_driver_files(V):
    """The observers a driver builds itself from paths (logfile=, trajectory=, restart_file=) must be opened in
    the driver's logging_mode: 'w' starts from an empty file also when the path holds the remains of an earlier
    (possibly crashed) run, 'a' keeps every earlier byte.  Finite domain (driver x mode), real files."""
    from ase import Atoms

    from quansino.mc.canonical import Canonical
    from quansino.mc.fbmc import ForceBias
    from quansino.mc.gcmc import GrandCanonical

    which = ("Canonical", "GrandCanonical", "ForceBias")[V.choice("driver", 3)]
    mode = ("w", "a")[V.choice("mode", 2)]
    info = f"driver-files:{which}:logging_mode={mode}"
    old = "REMAINS OF AN EARLIER RUN, torn in the middle of a li"
    import warnings

    with tempfile.TemporaryDirectory() as td, warnings.catch_warnings():
        warnings.simplefilter("ignore")
        paths = {k: os.path.join(td, k + ".out") for k in ("log", "traj", "restart")}
        for p_ in paths.values():
            with open(p_, "w") as fh:
                fh.write(old)
        atoms = Atoms("Cu2", positions=[[0.9, 1.1, 1.3], [2.3, 1.5, 1.6]], cell=[6.0, 6.0, 6.0], pbc=True)

        class _Flat:  # a calculator is only needed because the log line reports the energy
            results = {"energy": 0.0}
            atoms = None

            def get_potential_energy(self, atoms=None, force_consistent=False):
                return 0.0

            def get_forces(self, atoms=None):
                return np.zeros((len(atoms), 3))

        atoms.calc = _Flat()
        kw = dict(logfile=paths["log"], trajectory=paths["traj"], restart_file=paths["restart"], logging_mode=mode, logging_interval=1, seed=3)
        try:
            if which == "Canonical":
                sim = Canonical(atoms, temperature=300.0, max_cycles=1, **kw)
            elif which == "GrandCanonical":
                sim = GrandCanonical(atoms, exchange_atoms=Atoms("Cu"), temperature=300.0, chemical_potential=0.1, number_of_exchange_particles=2, max_cycles=1, **kw)
            else:
                sim = ForceBias(atoms, delta=0.05, temperature=300.0, **kw)
            obs = {"log": sim.default_logger, "traj": sim.default_trajectory, "restart": sim.default_restart}
            sim.default_logger.write_header()
            for o in obs.values():
                o()
            sim.close()
        except Exception as ex:  # noqa: BLE001
            V.fail("default-observers-honour-the-logging-mode", info=info + ":" + type(ex).__name__ + ":" + str(ex)[:80])
            return
        V.reach("written")
        for k, p_ in paths.items():
            with open(p_) as fh:
                text = fh.read()
            kept = text.startswith(old)
            ok = (obs[k].mode == mode) and (kept if (mode == "a" and k != "restart") else not kept) and len(text) > (len(old) if kept else 0)
            V.prove(ok, "default-observers-honour-the-logging-mode", info=info + f":{k}:observer.mode={obs[k].mode}:old-bytes-kept={kept}")


SCENARIOS = {"observer": sc_observer, "driver_files": sc_driver_files}
replay = generic_replay(SCENARIOS)


def validate_model(rep):
    """Encoding validation (thorough tier): for every observer kind, mode/handle combination and EVERY crash point
    the real process is killed at that operation and the file on disk is compared with what the file-state model
    predicted -- intact for log and trajectory at every point; for the restart file, broken exactly at the crash
    points the symbolic run flagged.  A disagreement means the model (not quansino) is wrong: harness error."""
    import re
    from concurrent.futures import ThreadPoolExecutor

    flagged = {}
    for c in rep.candidates:
        m = re.search(r"crash_after_op=(\d+)", c.get("info") or "")
        if m and c.get("label", "").startswith("after-a-crash"):
            flagged.setdefault(c["scenario"], set()).add(int(m.group(1)))
    jobs = []
    for kind in ("logger", "trajectory", "restart"):
        for mode, app in (("w", False), ("a", True), ("a", False)):
            nops = len(pattern(kind, mode)[2])
            tag = f"observer[kind={kind},mode={mode},append_handle={app}]"
            for c in range(nops + 1):
                jobs.append((kind, mode, app, c, nops, tag))

    def one(job):
        kind, mode, app, c, nops, tag = job
        V = symx.Replay({"symbols": {"crash_after_op": c}, "draws": []})
        try:
            _real_crash(V, kind, mode, app, "steady")
        except Exception as ex:  # noqa: BLE001
            return job, None, f"{type(ex).__name__}: {ex}"
        return job, set(V.failed), None

    agree = disagree = 0
    with ThreadPoolExecutor(max_workers=8) as ex:
        for job, failed, err in ex.map(one, jobs):
            kind, mode, app, c, nops, tag = job
            if err:
                rep.harness_errors.append(f"model validation {tag} crash_after_op={c}: {err}")
                continue
            real_broken = any(l.startswith("after-a-crash") for l in failed)
            model_broken = c in flagged.get(tag, set()) and c < nops
            if real_broken == model_broken:
                agree += 1
            else:
                disagree += 1
                rep.harness_errors.append(f"file-state model disagrees with the real file: {tag} crash_after_op={c}: model says {'broken' if model_broken else 'intact'}, the killed process left it {'broken' if real_broken else 'intact'}")
    rep.encoding_validations += agree + disagree
    rep.extra["model_validation"] = {"crash points killed for real": agree + disagree, "agree": agree, "disagree": disagree}


def run(rep: Report):
    tier = rep.tier
    opts = {"prove_timeout_ms": 10000, "fork_timeout_ms": 2000, "seed": rep.seed, "scenario_wall_s": 900 if tier == "quick" else 900}
    plan = []
    for k in ("logger", "trajectory", "restart"):
        # (observer mode argument, handle really opened for appending): 'w' file, 'a' file, and a user
        # handle opened with 'w' while the mode argument keeps its default 'a'
        for mode, app in (("w", False), ("a", True), ("a", False)):
            plan.append(("observer", dict(kind=k, mode=mode, append_handle=app), ("crash", "complete")))
        # the system empties, refills from empty, or grows between the two calls
        for st in ("to-empty", "from-empty", "grow"):
            plan.append(("observer", dict(kind=k, mode="a", append_handle=True, state=st), ("complete",)))
    plan.append(("driver_files", dict(), ("written",)))
    run_plan(rep, plan, SCENARIOS, opts)
    if tier == "thorough":
        validate_model(rep)
    rep.bounds = {"calls": "two consecutive calls j-1, j from an arbitrary well-formed file state (inductive)", "document lengths": "symbolic positive integers per write, independent for the two calls (growing and shrinking)", "crash point": "after any operation of call j", "persisted prefix of the buffer": "symbolic", "system sizes at the two calls": "3->3, 1->0 (empty box), 0->1, 1->3 atoms"}
    rep.assumptions = ["crash = process death: flushed bytes are durable, buffered bytes are lost except a prefix the I/O library may already have pushed", "seek and truncate flush the buffer first (Python io semantics)", "operation pattern taken from a real observer call on the current source; contents of a complete document are C07/C08's subject"]
    rep.stubs = ["RecFile recording stream", "FileModel"]
    rep.outside = ["power loss (no fsync model)", "validity of the content of a complete document", "binary/exclusive modes"]
    rep.extra["explanation"] = "symbolic crash-point analysis of the real observers' operation patterns over a file-state model with symbolic document lengths; the weakest use of the solver in the set (contents concrete)"
