"""C20 -- drivers use custom moves and criteria only through the documented protocol.

A strict bare move and a strict bare criteria (no quansino base class; every attribute access
outside the protocol is recorded as a violation) are added with an explicit criteria to every Monte
Carlo driver and driven for two trials.  The move's result has symbolic truthiness and the
criteria's verdict is a symbolic boolean, so every accept/reject/not-attempted history of length 2
is covered.  In the exchange and cell drivers the move changes the atom count / the cell through
the context when it "succeeds"; every accepted change must be notified, none on rejection.
"""
from __future__ import annotations

import numpy as np

from .. import mcsim, shims, symx
from ..runner import Report, generic_replay, run_plan

ID = "C20"
LEVEL = "model_checking"

MOVE_PROTOCOL = {"__call__", "on_atoms_changed", "on_cell_changed", "to_dict", "from_dict"}
CRIT_PROTOCOL = {"evaluate", "to_dict", "from_dict"}
_DUNDER_OK = {"__class__", "__dict__", "__doc__", "__module__", "__repr__", "__str__", "__hash__", "__eq__", "__ne__", "__init__", "__new__", "__reduce_ex__", "__reduce__", "__getstate__", "__deepcopy__", "__copy__", "__sizeof__", "__dir__", "__format__", "__init_subclass__", "__subclasshook__", "__getattribute__", "__setattr__", "__delattr__", "__weakref__", "__slots__", "__orig_class__", "__class_getitem__", "__bool__", "__len__"}


class Truthy:
    """Result object whose truthiness is a symbolic boolean."""

    def __init__(self, b):
        self.b = b

    def __bool__(self):
        return bool(self.b)


class StrictMove:
    def __init__(self, V, effect, log):
        object.__setattr__(self, "_p", {"V": V, "effect": effect, "log": log, "calls": 0, "violations": [], "atoms_notes": [], "cell_notes": []})

    def __getattr__(self, name):  # only reached for attributes that do not exist
        p = object.__getattribute__(self, "_p")
        if name not in _DUNDER_OK:
            p["violations"].append("read:" + name)
        raise AttributeError(name)

    def __setattr__(self, name, value):
        p = object.__getattribute__(self, "_p")
        p["violations"].append("write:" + name)

    # a user object may well compare equal to another one (dataclass, settings-only __eq__); the driver has
    # no business asking
    def __eq__(self, other):
        p = object.__getattribute__(self, "_p")
        if isinstance(other, StrictMove) and other is not self:
            p["violations"].append("compared:__eq__")
        return isinstance(other, StrictMove)

    def __hash__(self):
        return 1

    def __call__(self, context):
        p = object.__getattribute__(self, "_p")
        k = p["calls"]
        p["calls"] += 1
        ok = p["V"].bool(f"mv{k}")
        okb = bool(ok)
        p["log"].append(("move", k, okb))
        if okb and p["effect"] == "insert":
            atoms = context.atoms
            n0 = len(atoms)
            atoms.extend(context.exchange_atoms)
            idx = np.arange(n0, len(atoms))
            context._added_indices = np.hstack((context._added_indices, idx)).astype(int)
            context._added_atoms += atoms[idx]
            context.particle_delta += 1
        elif okb and p["effect"] in ("cell", "shear"):
            atoms = context.atoms
            c = np.array(atoms.cell.array, dtype=object if p["V"].mode == "sym" else float)
            if p["effect"] == "shear":
                c = c.copy()
                c[1, 0] = c[1, 0] + 0.375  # volume-preserving change of shape
                atoms.set_cell(c, scale_atoms=False)
            else:
                atoms.set_cell(c * 1.25, scale_atoms=True)
        elif okb and p["effect"] == "displace":
            atoms = context.atoms
            pos = atoms.get_positions()
            pos[0, 0] = pos[0, 0] + 0.25
            atoms.set_positions(pos)
        return Truthy(okb)

    def on_atoms_changed(self, added_indices, removed_indices):
        p = object.__getattribute__(self, "_p")
        p["atoms_notes"].append(([int(i) for i in added_indices], [int(i) for i in removed_indices]))

    def on_cell_changed(self, new_cell):
        p = object.__getattribute__(self, "_p")
        p["cell_notes"].append(np.array(np.asarray(new_cell.array if hasattr(new_cell, "array") else new_cell)).copy())

    def to_dict(self):
        return {"name": "StrictMove", "kwargs": {"marker": 42}}

    received = []

    @classmethod
    def from_dict(cls, data):
        import copy

        cls.received.append(copy.deepcopy(data))
        obj = cls.__new__(cls)
        object.__setattr__(obj, "_p", {"V": None, "effect": "none", "log": [], "calls": 0, "violations": [], "atoms_notes": [], "cell_notes": [], "rebuilt": True})
        return obj


class StrictCriteria:
    def __init__(self, V, log):
        object.__setattr__(self, "_p", {"V": V, "log": log, "calls": 0, "violations": []})

    def __getattr__(self, name):
        p = object.__getattribute__(self, "_p")
        if name not in _DUNDER_OK:
            p["violations"].append("read:" + name)
        raise AttributeError(name)

    def __setattr__(self, name, value):
        object.__getattribute__(self, "_p")["violations"].append("write:" + name)

    def evaluate(self, context):
        p = object.__getattribute__(self, "_p")
        k = p["calls"]
        p["calls"] += 1
        v = p["V"].bool(f"acc{k}")
        vb = bool(v)
        p["log"].append(("criteria", k, vb))
        return Truthy(vb) if p["V"].choice(f"style{k}", 2) else vb

    def to_dict(self):
        return {"name": "StrictCriteria", "kwargs": {"marker": 7}}

    received = []

    @classmethod
    def from_dict(cls, data):
        import copy

        cls.received.append(copy.deepcopy(data))
        obj = cls.__new__(cls)
        object.__setattr__(obj, "_p", {"V": None, "log": [], "calls": 0, "violations": [], "rebuilt": True})
        return obj


EFFECT = {"MonteCarlo": "none", "Canonical": "displace", "HamiltonianCanonical": "displace", "Isobaric": "cell", "Isotension": "cell", "GrandCanonical": "insert"}


def _driver(V, name, atoms, exch):
    if name == "MonteCarlo":
        from quansino.mc.core import MonteCarlo

        return MonteCarlo(atoms, max_cycles=1, seed=5)
    return mcsim.make_driver(V, name, atoms, exchange=exch, nexch=0)


def sc_driver(V, driver="Canonical", with_shipped=False, trials=2, effect=None, cycles=1, restore=False):
    """`trials` = total number of trials; with cycles>1 they are the cycles of ONE step."""
    info = f"{driver}:shipped={with_shipped}:effect={effect}:cycles={cycles}" + (":restore" if restore else "")
    atoms = mcsim.make_atoms(V, 2, momenta=(driver == "HamiltonianCanonical"), extras=False)
    pes = mcsim.PES(V)
    atoms.calc = mcsim.ModelCalc("caching", pes)
    exch = mcsim.exchange_species(V, 1) if driver == "GrandCanonical" else None
    mc = _driver(V, driver, atoms, exch)
    mc.max_cycles = cycles
    mcsim.install_rng(mc, mcsim.make_rng(V))
    log = []
    mv = StrictMove(V, effect or EFFECT[driver], log)
    cr = StrictCriteria(V, log)
    try:
        mc.add_move(mv, cr, name="user")
    except Exception as ex:  # noqa: BLE001
        V.fail("can-be-added-with-explicit-criteria", info=info + ":" + type(ex).__name__)
        return
    twin = None
    if driver in ("GrandCanonical", "Isobaric"):
        # a second, idle user move with the same settings (compares equal): it must be notified too
        twin = StrictMove(V, "none", [])
        mc.add_move(twin, StrictCriteria(V, []), name="user_twin", probability=0.0)
    if with_shipped and driver != "MonteCarlo":
        from quansino.moves.displacement import DisplacementMove
        from quansino.operations.displacement import Box

        mc.add_move(DisplacementMove(np.arange(2), Box(0.1)), name="shipped", probability=0.0)
    try:
        mc.validate_simulation()
        cells, counts = [np.array(atoms.cell.array).copy()], [len(atoms)]
        hist = []
        if cycles == 1:
            for t in range(trials):
                name, verdict = mcsim.run_trial(mc)
                hist.append(None if verdict is None else bool(verdict))
                cells.append(np.array(atoms.cell.array).copy())
                counts.append(len(atoms))
        else:
            # one step of several cycles: the generator yields before every trial
            for _nm in mc.step():
                if len(cells) > 1 or len(log):
                    cells.append(np.array(atoms.cell.array).copy())
                    counts.append(len(atoms))
            cells.append(np.array(atoms.cell.array).copy())
            counts.append(len(atoms))
            hist = [None if v is None else bool(v) for _n, v in mc.move_history]
            if len(hist) != trials:
                V.fail("one-history-entry-per-cycle", info=info + f":entries={len(hist)}:cycles={trials}")
                return
        d = mc.to_dict()
    except (symx.PathAbort, symx.BoundHit, symx.Unsupported, symx.ReplayMismatch):
        raise
    except Exception as ex:  # noqa: BLE001
        V.fail("driver-runs-with-bare-components", info=info + ":" + type(ex).__name__ + ":" + str(ex)[:70])
        return
    pm = object.__getattribute__(mv, "_p")
    pc = object.__getattribute__(cr, "_p")
    V.reach("history:" + ",".join({None: "n", True: "a", False: "r"}[h] for h in hist))
    V.prove(not pm["violations"], "move-touched-only-through-the-protocol", info=info + ":" + ",".join(pm["violations"][:4]))
    V.prove(not pc["violations"], "criteria-touched-only-through-the-protocol", info=info + ":" + ",".join(pc["violations"][:4]))
    # truthy result -> criteria consulted; falsy -> recorded as not attempted, criteria not consulted
    mres = [e[2] for e in log if e[0] == "move"]
    cres = [e[2] for e in log if e[0] == "criteria"]
    exp_hist, ci = [], 0
    ok_flow = len(mres) == trials
    for r in mres:
        if r:
            if ci < len(cres):
                exp_hist.append(cres[ci])
                ci += 1
            else:
                ok_flow = False
        else:
            exp_hist.append(None)
    ok_flow = ok_flow and ci == len(cres)
    V.prove(ok_flow and hist == exp_hist, "truthy-to-criteria/falsy-not-attempted", info=info + f":history={hist}:expected={exp_hist}")
    ms = d.get("moves", {}).get("user", {})
    V.prove(ms.get("kwargs", {}).get("move") == {"name": "StrictMove", "kwargs": {"marker": 42}} and ms.get("kwargs", {}).get("criteria") == {"name": "StrictCriteria", "kwargs": {"marker": 7}}, "serialized-with-the-simulation", info=info)
    # dictionary conversion, the way back: the simulation rebuilt from its dictionary hands each user component
    # exactly the dictionary that component produced
    if restore:
        import copy

        from quansino.registry import register_class

        register_class(StrictMove, "StrictMove")
        register_class(StrictCriteria, "StrictCriteria")
        StrictMove.received.clear()
        StrictCriteria.received.clear()
        try:
            d2 = copy.deepcopy(d)
            import numpy.random as _npr

            d2["rng_state"] = _npr.PCG64(5).state  # (the harness drives the live simulation with a stub generator)
            mc2 = type(mc).from_dict(d2)
        except (symx.PathAbort, symx.BoundHit, symx.Unsupported, symx.ReplayMismatch):
            raise
        except Exception as ex:  # noqa: BLE001
            V.fail("rebuilt-from-their-own-dictionaries", info=info + ":" + type(ex).__name__ + ":" + str(ex)[:70])
            mc2 = None
        if mc2 is not None:
            V.reach("restored")
            want_m, want_c = mv.to_dict(), cr.to_dict()
            okm = bool(StrictMove.received) and all(r == want_m for r in StrictMove.received)
            okc = bool(StrictCriteria.received) and all(r == want_c for r in StrictCriteria.received)
            V.prove(okm and okc, "rebuilt-from-their-own-dictionaries", info=info + f":move-got={StrictMove.received[:1]}:criteria-got={StrictCriteria.received[:1]}")
            st2 = mc2.moves.get("user")
            V.prove(st2 is not None and type(st2.move) is StrictMove and type(st2.criteria) is StrictCriteria, "rebuilt-from-their-own-dictionaries", info=info + ":rebuilt table entry")
    # notifications
    eff = effect or EFFECT[driver]
    if eff == "shear":
        eff = "cell"
    acc = [h is True for h in hist]
    if eff == "insert":
        want = []
        for t in range(trials):
            if acc[t]:
                want.append(([counts[t]], []))
        V.prove(pm["atoms_notes"] == want, "notified-of-every-accepted-atom-count-change", info=info + f":got={pm['atoms_notes']}:want={want}")
        if twin is not None:
            pt = object.__getattribute__(twin, "_p")
            V.prove(pt["atoms_notes"] == want, "every-move-in-the-table-is-notified", info=info + f":idle-move-got={pt['atoms_notes']}:want={want}")
            V.prove(not pt["violations"], "move-touched-only-through-the-protocol", info=info + ":idle:" + ",".join(pt["violations"][:3]))
    else:
        V.prove(all(not a and not r for a, r in pm["atoms_notes"]), "no-atom-notification-without-change", info=info)
    if eff == "cell":
        nacc = sum(acc)
        ok = len(pm["cell_notes"]) == nacc
        if ok:
            k = 0
            for t in range(trials):
                if acc[t]:
                    ok = ok and mcsim.same(V, pm["cell_notes"][k], cells[t + 1])
                    k += 1
        V.prove(ok, "notified-of-every-accepted-cell-change", info=info + f":notes={len(pm['cell_notes'])}:accepted={nacc}")
        if twin is not None:
            pt = object.__getattribute__(twin, "_p")
            V.prove(len(pt["cell_notes"]) == nacc, "every-move-in-the-table-is-notified", info=info + f":idle-move-notes={len(pt['cell_notes'])}:accepted={nacc}")
    else:
        V.prove(len(pm["cell_notes"]) == 0, "no-cell-notification-without-change", info=info)


SCENARIOS = {"driver": sc_driver}
replay = generic_replay(SCENARIOS)


def _plan(tier):
    P = []
    for d in ("MonteCarlo", "Canonical", "HamiltonianCanonical", "Isobaric", "Isotension", "GrandCanonical"):
        P.append(("driver", dict(driver=d, with_shipped=(d in ("Canonical", "GrandCanonical", "Isobaric")), trials=2), ()))
    P.append(("driver", dict(driver="Isobaric", with_shipped=False, trials=2, effect="shear"), ()))
    P.append(("driver", dict(driver="Isotension", with_shipped=True, trials=2, effect="shear"), ()))
    for d in ("MonteCarlo", "Canonical", "Isobaric", "GrandCanonical"):
        P.append(("driver", dict(driver=d, with_shipped=(d == "Canonical"), trials=1, restore=True), ("restored",)))
    # several cycles inside one step (the verdict of one cycle must not leak into the next)
    P.append(("driver", dict(driver="MonteCarlo", trials=3, cycles=3), ()))
    P.append(("driver", dict(driver="GrandCanonical", trials=2, cycles=2), ()))
    P.append(("driver", dict(driver="Isobaric", trials=2, cycles=2), ()))
    if tier != "quick":
        for d in ("Isobaric", "GrandCanonical", "Canonical"):
            P.append(("driver", dict(driver=d, with_shipped=False, trials=3), ()))
    return P


def run(rep: Report):
    tier = rep.tier
    opts = {"prove_timeout_ms": 10000, "fork_timeout_ms": 2000, "seed": rep.seed, "scenario_wall_s": 900 if tier == "quick" else 1200}
    run_plan(rep, _plan(tier), SCENARIOS, opts)
    rep.bounds = {"drivers": "MonteCarlo, Canonical, HamiltonianCanonical, Isobaric, Isotension, GrandCanonical", "trials": "2 (quick) / 3: every accepted/rejected/not-attempted history", "result styles": "bool and truthy object for the criteria, truthy object for the move"}
    rep.assumptions = ["the bare move changes the system the way the shipped moves do (through context.atoms and the exchange bookkeeping attributes documented on ExchangeContext)"]
    rep.stubs = ["StrictMove / StrictCriteria recording any access outside the protocol", "SymAtoms, SymRNG, ModelCalc"]
    rep.outside = ["user components that also deviate from the protocol's signatures", "deletions by a user move (insertions are used for the count change)"]
    rep.extra["explanation"] = "bounded model checking of every 2-trial history of a strict bare move/criteria in each driver"
