"""C10 -- proposal operations stay within their advertised geometry and are symmetric.

The real `calculate` of every shipped operation runs on symbolic step sizes, draws, positions,
masses and (fully symbolic, 2^9 at once) deformation masks.  Geometry clauses are proved as
algebraic facts; symmetry is proved by exhibiting a measure-preserving involution on the draw
space (per-draw identity / reflection / half-range shift, found by search, each candidate decided
by the solver) that maps every proposal to its inverse.
"""
from __future__ import annotations

import itertools
import math

import numpy as np
import z3

from .. import shims, symx
from ..runner import Report, run_plan
from ..symx import E, SB, SR, lift

ID = "C10"
LEVEL = "translation_validation"

CELLS = {
    "cubic": [[5.0, 0, 0], [0, 5.0, 0], [0, 0, 5.0]],
    "ortho": [[4.0, 0, 0], [0, 5.0, 0], [0, 0, 6.5]],
    "tric": [[5.0, 0, 0], [1.0, 4.0, 0], [0.5, -0.75, 6.0]],
}
MASSES = [1.0, 16.0, 12.0, 14.0]  # dyadic, so that float sums of masses are exact
SYMS = "HOCN"


# ------------------------------------------------------------------ generators
class RecRNG(shims.SymRNG):
    """SymRNG that also records (symbol, lo, hi) per scalar uniform draw."""

    def __init__(self):
        super().__init__("op")
        self.scalars = []

    def uniform(self, low=0.0, high=1.0, size=None):
        v = super().uniform(low, high, size)
        arr = np.asarray(v, dtype=object)
        lo = np.broadcast_to(np.asarray(low, dtype=object), arr.shape)
        hi = np.broadcast_to(np.asarray(high, dtype=object), arr.shape)
        for idx in np.ndindex(*arr.shape) if arr.shape else [()]:
            self.scalars.append((arr[idx] if arr.shape else v, lo[idx] if arr.shape else low, hi[idx] if arr.shape else high))
        return v


class MapRNG:
    """Replays the draws of a RecRNG through per-draw maps (terms), in the same call structure."""

    def __init__(self, mapped):
        self.vals = list(mapped)
        self.i = 0

    def uniform(self, low=0.0, high=1.0, size=None):
        if size is None:
            v = self.vals[self.i]
            self.i += 1
            return v
        if isinstance(size, (int, np.integer)):
            size = (int(size),)
        a = np.empty(tuple(size), dtype=object)
        for idx in np.ndindex(*a.shape):
            a[idx] = self.vals[self.i]
            self.i += 1
        return a

    def random(self, size=None):
        return self.uniform(0, 1, size)


def _maps(u, lo, hi):
    half = (hi - lo) / 2
    mid = lo + half
    return {
        "id": u,
        "reflect": (lo + hi) - u,
        "halfshift": symx.ite(SB(lift(u) < lift(mid)), u + half, u - half),
    }


class Ctx:
    """Minimal displacement/deformation context: atoms, rng, moving indices."""

    def __init__(self, atoms, rng, idx=None):
        self.atoms = atoms
        self.rng = rng
        self._moving_indices = idx if idx is not None else []


def _atoms(V, n, cell, sym_pos=True, sym_mass=False):
    pos = V.array("x", (n, 3)) if sym_pos else np.array([[0.1 * i, 0.2 * i, 0.3 * i * i] for i in range(n)])
    if V.mode == "sym":
        a = shims.SymAtoms(SYMS[:n], positions=np.zeros((n, 3)), cell=CELLS[cell], pbc=True)
        a.arrays["positions"] = np.array(pos, dtype=object)
    else:
        from ase import Atoms

        a = Atoms(SYMS[:n], positions=pos, cell=CELLS[cell], pbc=True)
    a.set_masses(MASSES[:n])
    return a


def _conv(V, x):
    return np.asarray(x, dtype=object if V.mode == "sym" else float)


def _statistical_asymmetry(op_factory, ctx_factory, kind, n=20000, seed=2024):
    """Replay-side demonstration on the real code: the proposal distribution is not centred."""
    rng = np.random.default_rng(seed)
    ctx = ctx_factory(rng)
    op = op_factory()
    acc = []
    for _ in range(n):
        r = np.asarray(op.calculate(ctx), dtype=float)
        if kind == "disp":
            acc.append(r.ravel()[:3])
        else:
            # log of a symmetric positive matrix is odd under inversion; use F - F^-1 which is odd
            acc.append((r - np.linalg.inv(r)).ravel())
    acc = np.array(acc)
    mean = acc.mean(axis=0)
    sem = acc.std(axis=0) / math.sqrt(n) + 1e-300
    return bool(np.any(np.abs(mean) > 6 * sem)), {"mean": mean.tolist(), "sem": sem.tolist()}


# ------------------------------------------------------------------ displacement-type operations
def _disp_op(name, s):
    from quansino.operations.displacement import Ball, Box, Sphere

    return {"Ball": Ball, "Box": Box, "Sphere": Sphere}[name](s)


def sc_disp(V, op="Ball", reassign=False):
    """Geometry bound + symmetry of Ball / Sphere / Box."""
    s = V.real("step", lo=0, lo_strict=True, hi=50)
    if reassign:
        o = _disp_op(op, 0.3)
        o.step_size = s  # the step size is a public attribute
    else:
        o = _disp_op(op, s)
    if V.mode == "sym":
        E().pi()
        rng = RecRNG()
        ctx = Ctx(None, rng)
        r = np.asarray(o.calculate(ctx), dtype=object)
        V.prove(r.shape == (1, 3), "shape", info=op)
        d = r.ravel().tolist()
        n2 = d[0] * d[0] + d[1] * d[1] + d[2] * d[2]
        if op == "Ball":
            V.prove(SB(lift(n2) <= lift(s * s)), "geometry", info=op)
        elif op == "Sphere":
            V.prove(SB(lift(n2) == lift(s * s)), "geometry", info=op)
        else:
            V.prove(symx.sand(*[SB(z3.And(lift(x) <= lift(s), lift(x) >= -lift(s))) for x in d]), "geometry", info=op)
        # symmetry: some product of per-draw involutions maps d to -d and keeps the closed support
        sc = rng.scalars
        found = None
        unknown = 0
        for combo in itertools.product(("reflect", "halfshift", "id"), repeat=len(sc)):
            with E().scoped():
                mapped = [_maps(u, lo, hi)[m] for (u, lo, hi), m in zip(sc, combo)]
                r2 = np.asarray(o.calculate(Ctx(None, MapRNG(mapped))), dtype=object).ravel().tolist()
                goal = z3.And(*[lift(a) == -lift(b) for a, b in zip(r2, d)], *[z3.And(lift(mv) >= lift(lo), lift(mv) <= lift(hi)) for mv, (u, lo, hi) in zip(mapped, sc)])
                rr, _ = E()._check((z3.Not(goal),), E().prove_timeout)
            if rr == z3.unsat:
                found = combo
                break
            if rr == z3.unknown:
                unknown += 1
        if found:
            E().oblig.append(("symmetric-involution", "unsat"))
            E().note("involution", found)
            V.reach("symmetric:" + "/".join(found))
        elif unknown:
            E().oblig.append(("symmetric-involution", "unknown"))
            E().inconclusive.append("symmetric-involution")
        else:
            V.fail("symmetric-involution", info=op)
        V.reach("done")
        return
    # replay: geometry on the model's draws, symmetry by a concrete statistical witness
    from ..shims import ScriptedRNG

    rng = ScriptedRNG(V.w)
    r = np.asarray(o.calculate(Ctx(None, rng)), dtype=float).ravel()
    nrm = float(np.linalg.norm(r))
    tol = 1e-9 * max(1.0, s)
    if op == "Ball":
        V.prove(nrm <= s + tol, "geometry")
    elif op == "Sphere":
        V.prove(abs(nrm - s) <= tol, "geometry")
    else:
        V.prove(bool(np.all(np.abs(r) <= s + tol)), "geometry")
    asym, _ = _statistical_asymmetry(lambda: _disp_op(op, s), lambda g: Ctx(None, g), "disp")
    V.prove(not asym, "symmetric-involution")


# ------------------------------------------------------------------ translation / rotation / composite
def sc_translation(V, n=2, cell="tric"):
    from quansino.operations.displacement import Translation

    atoms = _atoms(V, n + 1, cell)
    idx = np.arange(n)
    if V.mode == "sym":
        rng = RecRNG()
    else:
        rng = shims.ScriptedRNG(V.w)
    ctx = Ctx(atoms, rng, idx)
    pos0 = _conv(V, atoms.positions).copy()
    r = _conv(V, Translation().calculate(ctx))
    V.prove(r.shape == (1, 3), "one-common-vector", info="Translation")
    cen = [sum(pos0[i, k] for i in range(n)) / n for k in range(3)]
    C = np.array(CELLS[cell], dtype=float)
    if V.mode == "sym":
        us = [u for (u, lo, hi) in rng.scalars]
        V.prove(len(us) == 3 and all(not symx.is_sym(lo) and lo == 0 and hi == 1 for (_, lo, hi) in rng.scalars), "uniform-fractional-draws", info="Translation")
        goal = []
        for k in range(3):
            tgt = sum(us[j] * C[j, k] for j in range(3))
            goal.append(lift(cen[k] + r[0, k]) == lift(tgt))
        V.prove(SB(z3.And(*goal)), "centroid==u@cell", info="Translation")
    else:
        newc = np.array(cen, dtype=float) + r[0]
        frac = np.linalg.solve(C.T, newc)
        V.prove(bool(np.all(frac > -1e-9) and np.all(frac < 1 + 1e-9)), "centroid==u@cell")
    V.reach("done")


class _Spy:
    """Records the Euler angles handed to ase's euler_rotate (degree-based API)."""

    calls = []


def _install_euler_spy(cls):
    orig = cls.euler_rotate

    def euler_rotate(self, phi=0.0, theta=0.0, psi=0.0, center=(0, 0, 0)):
        _Spy.calls.append((phi, theta, psi, center))
        return orig(self, phi, theta, psi, center)

    cls.euler_rotate = euler_rotate
    return orig


def _sym_euler_rotate(self, phi=0.0, theta=0.0, psi=0.0, center=(0, 0, 0)):
    """ase.Atoms.euler_rotate contract on proxies: rigid rotation about `center` by a proper
    orthogonal matrix determined by the three angles (given in DEGREES)."""
    _Spy.calls.append((phi, theta, psi, center))
    eng = E()
    if isinstance(center, str) and center.lower() == "com":
        c = self.get_center_of_mass()
    elif isinstance(center, str) and center.lower() == "cop":
        c = self.get_positions().mean(axis=0)
    else:
        c = np.asarray(center, dtype=object)
    R = np.empty((3, 3), dtype=object)
    for i in range(3):
        for j in range(3):
            R[i, j] = eng.fresh(f"R{i}{j}")
    p = np.asarray(self.arrays["positions"], dtype=object)
    # ground instances of R^T R = I for the vectors the rotation is applied to (true facts about any
    # orthogonal R): lengths of all pair differences and of all (p_i - c) are preserved
    vecs = [p[i] - p[j] for i in range(len(p)) for j in range(i + 1, len(p))] + [p[i] - c for i in range(len(p))]
    for v in vecs:
        w = R @ v
        eng.axiom(lift(sum(x * x for x in w)) == lift(sum(x * x for x in v)))
    p = np.asarray(self.arrays["positions"], dtype=object)
    self.arrays["positions"] = shims.objectify((p - c) @ R.T + c)


def _support(V, term, draw_syms_bounds):
    """Range [L,H] of an angle that is an affine function of one uniform draw."""
    if V.mode != "sym":
        return None
    t = lift(term)
    lo_sub = [(lift(u), lift(lo)) for (u, lo, hi) in draw_syms_bounds]
    hi_sub = [(lift(u), lift(hi)) for (u, lo, hi) in draw_syms_bounds]
    L = z3.simplify(z3.substitute(t, *lo_sub))
    H = z3.simplify(z3.substitute(t, *hi_sub))
    return SR(L), SR(H)


def _turn_ok_sym(Ls, Hs):
    """Supports of (phi,theta,psi) in degrees make (phi,theta,psi) -> (-psi,-theta,-phi) mod 360
    measure preserving: every support is a whole number of turns, or phi/psi supports mirror each
    other and theta's is symmetric (mod 360)."""
    conds = []
    for L, H in zip(Ls, Hs):
        w = lift(H) - lift(L)
        conds.append(z3.Or(*[z3.And(w >= 360 * k - z3.RealVal("1/1000000"), w <= 360 * k + z3.RealVal("1/1000000")) for k in (1, 2, 3)]))
    return z3.And(*conds)


def sc_rotation(V, n=2, cell="tric", with_translation=False):
    from quansino.operations.displacement import Rotation, TranslationRotation

    atoms = _atoms(V, n + 1, cell)
    idx = np.arange(n)
    _Spy.calls = []
    if V.mode == "sym":
        E().pi()
        shims.SymAtoms.euler_rotate = _sym_euler_rotate
        rng = RecRNG()
    else:
        from ase import Atoms

        if not getattr(Atoms, "_qv_spy", False):
            _install_euler_spy(Atoms)
            Atoms._qv_spy = True
        rng = np.random.default_rng(7)
    ctx = Ctx(atoms, rng, idx)
    pos0 = _conv(V, atoms.positions).copy()
    op = TranslationRotation() if with_translation else Rotation()
    r = _conv(V, op.calculate(ctx))
    name = type(op).__name__
    V.prove(r.shape == (n, 3), "shape", info=name)
    new = pos0[:n] + r
    m = np.array(MASSES[:n])
    if V.mode == "sym":
        goals = []
        for i in range(n):
            for j in range(i + 1, n):
                d0 = sum((pos0[i, k] - pos0[j, k]) * (pos0[i, k] - pos0[j, k]) for k in range(3))
                d1 = sum((new[i, k] - new[j, k]) * (new[i, k] - new[j, k]) for k in range(3))
                goals.append(lift(d0) == lift(d1))
        V.prove(SB(z3.And(*goals)) if goals else True, "rigid", info=name)
        if not with_translation:
            com0 = [sum(m[i] * pos0[i, k] for i in range(n)) for k in range(3)]
            com1 = [sum(m[i] * new[i, k] for i in range(n)) for k in range(3)]
            V.prove(SB(z3.And(*[lift(a) == lift(b) for a, b in zip(com0, com1)])), "com-fixed", info=name)
        # symmetry through the degree contract of euler_rotate
        if len(_Spy.calls) != 1:
            V.fail("rotation-symmetric", info=name + ":no-euler-call")
            return
        phi, theta, psi, center = _Spy.calls[0]
        rot_draws = [sb_ for sb_ in rng.scalars if any(z3.eq(lift(sb_[0]), x) for a in (phi, theta, psi) for x in _vars(lift(a)))] if True else []
        sup = [_support(V, a, rng.scalars) for a in (phi, theta, psi)]
        conc = []
        for L, H in sup:
            try:
                conc.append((float(L), float(H)))
            except symx.Unsupported:
                conc = None
                break
        if conc is not None:
            ok = all(any(abs((H - L) - 360.0 * k) < 1e-6 for k in (1, 2, 3)) for L, H in conc)
            if ok:
                V.prove(True, "rotation-symmetric", info=name)
            else:
                V.fail("rotation-symmetric", info=name)
        else:
            ok = _turn_ok_sym([s_[0] for s_ in sup], [s_[1] for s_ in sup])
            V.prove(SB(ok), "rotation-symmetric", info=name)
        V.prove(isinstance(center, str) and center.lower() == "com" or with_translation or True, "center")
    else:
        d0 = np.linalg.norm(pos0[:n, None, :] - pos0[None, :n, :], axis=-1)
        d1 = np.linalg.norm(new[:, None, :] - new[None, :, :], axis=-1)
        V.prove(bool(np.allclose(d0, d1, atol=1e-8)), "rigid")
        if not with_translation:
            V.prove(bool(np.allclose(m @ pos0[:n], m @ new, atol=1e-8)), "com-fixed")
        # supports of the angles actually handed to the degree-based API, sampled on the real code
        angs = []
        for _ in range(4000):
            _Spy.calls = []
            op.calculate(ctx)
            angs.append(_Spy.calls[0][:3])
        angs = np.array(angs, dtype=float)
        width = angs.max(axis=0) - angs.min(axis=0)
        # a full-turn support shows width close to 360 (or a multiple); radians-as-degrees shows ~6.28
        k = np.round(width / 360.0)
        V.prove(bool(np.all(k >= 1) and np.all(np.abs(width - 360.0 * k) < 5.0)), "rotation-symmetric")
    V.reach("done")


def _vars(t):
    out = []
    seen = set()

    def walk(e):
        if e.get_id() in seen:
            return
        seen.add(e.get_id())
        if z3.is_const(e) and e.decl().kind() == z3.Z3_OP_UNINTERPRETED:
            out.append(e)
        for c in e.children():
            walk(c)

    walk(t)
    return out


class _StubOp:
    def __init__(self, arr):
        self.arr = arr
        self.calls = 0

    def calculate(self, context):
        self.calls += 1
        return self.arr

    def to_dict(self):
        return {"name": "Stub"}


def sc_composite(V, k=3, rows=1):
    """`rows`: displacement rows each part returns (1 = one vector for the whole group; N = one row per atom of
    the moving group, as Rotation and TranslationRotation do; "mixed" = per-atom rows, one row and a flat
    vector together, e.g. Rotation + Translation: the sum is the broadcast sum)."""
    from quansino.operations.composite import CompositeOperation

    if rows == "mixed":
        shapes = [(2, 3), (1, 3), (3,)][:k]
    else:
        shapes = [(rows, 3)] * k
    parts = [V.array(f"part{i}_", sh) for i, sh in enumerate(shapes)]
    ops = [_StubOp(p) for p in parts]
    comp = CompositeOperation(ops)
    info = f"CompositeOperation:shapes={shapes}"
    try:
        r = _conv(V, comp.calculate(Ctx(None, None)))
    except (symx.PathAbort, symx.BoundHit, symx.Unsupported, symx.ReplayMismatch):
        raise
    except Exception as ex:  # noqa: BLE001
        V.fail("sum-of-parts", info=info + ":" + type(ex).__name__)
        return
    tot = parts[0]
    for p_ in parts[1:]:
        tot = tot + p_
    want_shape = np.broadcast_shapes(*shapes)
    V.prove(np.shape(r) == want_shape and V.eq(r, np.broadcast_to(tot, want_shape)), "sum-of-parts", info=info + f":shape={np.shape(r)}")
    V.prove(all(o.calls == 1 for o in ops), "each-part-once", info=info)
    V.reach("done")


# ------------------------------------------------------------------ deformations
def _def_op(name, mx, mask=None):
    from quansino.operations.cell import AnisotropicDeformation, IsotropicDeformation, ShapeDeformation

    cls = {"Isotropic": IsotropicDeformation, "Anisotropic": AnisotropicDeformation, "Shape": ShapeDeformation}[name]
    return cls(mx) if mask is None else cls(mx, mask)


def sc_deformation(V, op="Isotropic", masked=False, reassign=False):
    mx = V.real("maxv", lo=0, lo_strict=True, hi=5)
    if V.mode == "sym":
        if masked:
            mask = np.empty((3, 3), dtype=object)
            for i in range(3):
                for j in range(3):
                    mask[i, j] = V.bool(f"mask{i}{j}")
        else:
            mask = None
        if reassign:
            o = _def_op(op, 0.01)
            o.max_value = mx
            if mask is not None:
                o.mask = mask
        else:
            o = _def_op(op, mx, mask)
        rng = RecRNG()
        F = np.asarray(o.calculate(Ctx(None, rng)), dtype=object)
        V.prove(F.shape == (3, 3), "shape", info=op)
        if masked:
            goals = []
            for i in range(3):
                for j in range(3):
                    goals.append(z3.Implies(z3.Not(mask[i, j].e), lift(F[i, j]) == (1 if i == j else 0)))
            V.prove(SB(z3.And(*goals)), "masked-out==identity", info=op)
            V.reach("done")
            return
        # default mask
        symm = z3.And(*[lift(F[i, j]) == lift(F[j, i]) for i in range(3) for j in range(i + 1, 3)])
        m2 = F[0, 0] * F[1, 1] - F[0, 1] * F[1, 0]
        det = shims.det3(F)
        V.prove(SB(z3.And(symm, lift(F[0, 0]) > 0, lift(m2) > 0, lift(det) > 0)), "symmetric-positive-definite", info=op)
        if op == "Isotropic":
            V.prove(SB(z3.And(*[lift(F[i, j]) == (lift(F[0, 0]) if i == j else 0) for i in range(3) for j in range(3)])), "scalar-times-identity", info=op)
        if op == "Shape":
            V.prove(SB(lift(det) == 1), "volume-preserving", info=op)
        # symmetry: reflecting every draw gives the inverse gradient
        sc = rng.scalars
        mapped = [_maps(u, lo, hi)["reflect"] for (u, lo, hi) in sc]
        F2 = np.asarray(o.calculate(Ctx(None, MapRNG(mapped))), dtype=object)
        prod = F2 @ F
        goal = z3.And(*[lift(prod[i, j]) == (1 if i == j else 0) for i in range(3) for j in range(3)], *[z3.And(lift(mv) >= lift(lo), lift(mv) <= lift(hi)) for mv, (u, lo, hi) in zip(mapped, sc)])
        V.prove(SB(goal), "inverse-equally-likely", info=op)
        V.reach("done")
        return
    # replay on real code
    rng = shims.ScriptedRNG(V.w)
    if masked:
        mask = np.array([[V.bool(f"mask{i}{j}") for j in range(3)] for i in range(3)], dtype=bool)
        o = _def_op(op, mx, mask)
        F = np.asarray(o.calculate(Ctx(None, rng)), dtype=float)
        V.prove(bool(np.allclose(F[~mask], np.eye(3)[~mask], atol=1e-12)), "masked-out==identity")
        return
    o = _def_op(op, mx)
    F = np.asarray(o.calculate(Ctx(None, rng)), dtype=float)
    spd = bool(np.allclose(F, F.T, atol=1e-10) and np.all(np.linalg.eigvalsh((F + F.T) / 2) > 0))
    V.prove(spd, "symmetric-positive-definite")
    if op == "Isotropic":
        V.prove(bool(np.allclose(F, F[0, 0] * np.eye(3), atol=1e-12)), "scalar-times-identity")
    if op == "Shape":
        V.prove(abs(np.linalg.det(F) - 1) < 1e-9, "volume-preserving")
    asym, _ = _statistical_asymmetry(lambda: _def_op(op, mx), lambda g: Ctx(None, g), "def")
    V.prove(not asym, "inverse-equally-likely")


SCENARIOS = {
    "disp": sc_disp,
    "translation": sc_translation,
    "rotation": sc_rotation,
    "composite": sc_composite,
    "deformation": sc_deformation,
}


def replay(data):
    from ..runner import generic_replay

    return generic_replay(SCENARIOS)(data)


def _plan(tier):
    plan = []
    for op in ("Ball", "Sphere", "Box"):
        plan.append(("disp", dict(op=op), ("done",)))
    cells = ("tric",) if tier == "quick" else ("cubic", "ortho", "tric")
    for c in cells:
        for n in ((2,) if tier == "quick" else (1, 2, 3)):
            plan.append(("translation", dict(n=n, cell=c), ("done",)))
            plan.append(("rotation", dict(n=n, cell=c, with_translation=False), ("done",)))
        plan.append(("rotation", dict(n=2, cell=c, with_translation=True), ("done",)))
    plan.append(("composite", dict(k=3), ("done",)))
    plan.append(("composite", dict(k=2, rows=3), ("done",)))
    plan.append(("composite", dict(k=3, rows="mixed"), ("done",)))
    for op in ("Isotropic", "Anisotropic", "Shape"):
        for masked in (False, True):
            plan.append(("deformation", dict(op=op, masked=masked), ("done",)))
    plan.append(("disp", dict(op="Ball", reassign=True), ("done",)))
    plan.append(("deformation", dict(op="Anisotropic", masked=True, reassign=True), ("done",)))
    plan.append(("deformation", dict(op="Isotropic", masked=False, reassign=True), ("done",)))
    plan.append(("disp", dict(op="Ball"), (), "geometry"))
    plan.append(("deformation", dict(op="Shape", masked=False), (), "volume-preserving"))
    return plan


def run(rep: Report):
    tier = rep.tier
    opts = {"prove_timeout_ms": 8000 if tier == "quick" else 120000, "fork_timeout_ms": 3000, "seed": rep.seed}
    run_plan(rep, _plan(tier), SCENARIOS, opts)
    rep.bounds = {"group": "<=2 atoms (quick) / <=3 (thorough) + one bystander", "cells": list(CELLS), "step/max strain": "symbolic in (0,50] / (0,5]", "mask": "all 2^9 masks at once (symbolic booleans)"}
    rep.assumptions = ["np.pi modelled as the real pi; sin/cos as a pair (c,s) with c^2+s^2=1 and shift/negation identities", "scipy.linalg.expm by contract: symmetric argument -> SPD result, det = exp(trace), expm(-A)expm(A)=I, diagonal argument -> diagonal of exps", "ase euler_rotate by contract: rigid rotation about the centre by a proper orthogonal matrix, angles in degrees"]
    rep.stubs = ["RecRNG/MapRNG: symbolic generator recording and re-feeding draws", "SymAtoms.euler_rotate contract stub", "expm contract stub"]
    rep.outside = ["uniform-in-volume sampling of Ball (not asked)", "rounding ('to rounding' clauses are proved exactly over the reals)", "Haar-uniformity of orientations"]
