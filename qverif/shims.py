"""Shims that let the real quansino code run on symx proxies: numpy/math wrappers,
symbolic RNG, ASE Atoms/Cell subclasses, calculator models, and the patcher that
installs them into quansino's module globals by identity (no edits to /repo)."""
from __future__ import annotations

import math as _math
import sys
from fractions import Fraction

import numpy as np
import z3

from . import symx
from .symx import E, SB, SI, SR, BoundHit, PathAbort, Unsupported, is_sym, lift, sb

# =========================================================================== numpy wrapper


def _isfl(dtype):
    if dtype is None or dtype is float or dtype is object:
        return True
    try:
        return np.dtype(dtype).kind == "f"
    except TypeError:
        return False


def has_sym(a):
    if is_sym(a):
        return True
    if isinstance(a, np.ndarray):
        return a.dtype == object and any(is_sym(x) for x in a.ravel().tolist())
    if isinstance(a, (list, tuple)):
        return any(has_sym(x) for x in a)
    return False


def inv3(m):
    m = np.asarray(m, dtype=object)
    n = m.shape[0]
    if n == 2:
        d = m[0, 0] * m[1, 1] - m[0, 1] * m[1, 0]
        return np.array([[m[1, 1], -m[0, 1]], [-m[1, 0], m[0, 0]]], dtype=object) / d
    c = np.empty((3, 3), dtype=object)
    for i in range(3):
        for j in range(3):
            r = [k for k in range(3) if k != i]
            q = [k for k in range(3) if k != j]
            c[i, j] = ((-1) ** (i + j)) * (m[r[0], q[0]] * m[r[1], q[1]] - m[r[0], q[1]] * m[r[1], q[0]])
    d = m[0, 0] * c[0, 0] + m[0, 1] * c[0, 1] + m[0, 2] * c[0, 2]
    return c.T / d


def det3(m):
    m = np.asarray(m, dtype=object)
    return (
        m[0, 0] * (m[1, 1] * m[2, 2] - m[1, 2] * m[2, 1])
        - m[0, 1] * (m[1, 0] * m[2, 2] - m[1, 2] * m[2, 0])
        + m[0, 2] * (m[1, 0] * m[2, 1] - m[1, 1] * m[2, 0])
    )


def _ew(f):
    g = np.frompyfunc(f, 1, 1)

    def h(a):
        if isinstance(a, np.ndarray):
            return g(a.astype(object))
        if isinstance(a, (list, tuple)):
            return g(np.asarray(a, dtype=object))
        return f(a)

    return h


def _sign1(x):
    if isinstance(x, SR):
        return x.sign()
    if isinstance(x, SI):
        return SI(z3.If(x.e > 0, 1, z3.If(x.e < 0, -1, 0)))
    return float(np.sign(x))


def _abs1(x):
    return abs(x)


def _exp1(x):
    if is_sym(x):
        return (x if isinstance(x, SR) else SR(lift(x))).exp()
    return float(np.exp(x))


def _log1(x):
    if is_sym(x):
        return (x if isinstance(x, SR) else SR(lift(x))).log()
    return float(np.log(x))


def _sqrt1(x):
    if is_sym(x):
        return (x if isinstance(x, SR) else SR(lift(x))).sqrt()
    return float(np.sqrt(x))


def _tanh1(x):
    if is_sym(x):
        return (x if isinstance(x, SR) else SR(lift(x))).tanh()
    return float(np.tanh(x))


def _cos1(x):
    if is_sym(x):
        return x.cos()
    return float(np.cos(x))


def _sin1(x):
    if is_sym(x):
        return x.sin()
    return float(np.sin(x))


class _LA:
    def inv(self, m):
        if has_sym(m):
            return inv3(m)
        return np.linalg.inv(np.asarray(m, dtype=float))

    def det(self, m):
        if has_sym(m):
            return det3(m)
        return np.linalg.det(np.asarray(m, dtype=float))

    def norm(self, a, axis=None, **kw):
        if has_sym(a):
            a = np.asarray(a, dtype=object)
            s = np.sum(a * a, axis=axis)
            return _ew(_sqrt1)(s) if isinstance(s, np.ndarray) else _sqrt1(s)
        return np.linalg.norm(np.asarray(a, dtype=float), axis=axis, **kw)

    def solve(self, a, b):
        if has_sym(a) or has_sym(b):
            return inv3(a) @ np.asarray(b, dtype=object)
        return np.linalg.solve(np.asarray(a, dtype=float), np.asarray(b, dtype=float))

    def __getattr__(self, k):
        return getattr(np.linalg, k)


class NPW:
    """Delegates to real numpy; float constructors give object arrays; a few object-aware kernels."""

    linalg = _LA()

    def __getattr__(self, k):
        return getattr(np, k)

    @property
    def pi(self):
        return E().pi() if symx.Engine.cur is not None else np.pi

    def full(self, shape, val, dtype=None, **kw):
        if not is_sym(val) and isinstance(val, (int, np.integer, bool, np.bool_)) and (dtype is None or not _isfl(dtype)):
            return np.full(shape, val, dtype=dtype, **kw)
        if not is_sym(val) and dtype is not None and not _isfl(dtype):
            return np.full(shape, val, dtype=dtype, **kw)
        a = np.empty(shape, dtype=object)
        a[...] = val
        return a

    def zeros(self, shape, dtype=None, **kw):
        if _isfl(dtype):
            a = np.empty(shape, dtype=object)
            a[...] = 0.0
            return a
        return np.zeros(shape, dtype=dtype)

    def ones(self, shape, dtype=None, **kw):
        if _isfl(dtype):
            a = np.empty(shape, dtype=object)
            a[...] = 1.0
            return a
        return np.ones(shape, dtype=dtype)

    def eye(self, n, **kw):
        return np.eye(n).astype(object)

    def ones_like(self, a, **kw):
        if getattr(a, "dtype", None) == object:
            b = np.empty(a.shape, dtype=object)
            b[...] = 1.0
            return b
        return np.ones_like(a, **kw)

    def zeros_like(self, a, **kw):
        if getattr(a, "dtype", None) == object:
            b = np.empty(a.shape, dtype=object)
            b[...] = 0.0
            return b
        return np.zeros_like(a, **kw)

    def asarray(self, a, dtype=None, **kw):
        if dtype is not None and _isfl(dtype) and has_sym(a):
            return np.asarray(a, dtype=object)
        return np.asarray(a, dtype=dtype, **kw)

    def array(self, a, dtype=None, **kw):
        if dtype is not None and _isfl(dtype) and has_sym(a):
            return np.array(a, dtype=object)
        return np.array(a, dtype=dtype, **kw)

    def isnan(self, x):
        if is_sym(x):
            return False
        if isinstance(x, np.ndarray) and x.dtype == object:
            return np.array([(not is_sym(v)) and v != v for v in x.ravel().tolist()]).reshape(x.shape)
        return np.isnan(x)

    def sign(self, a):
        return _ew(_sign1)(a)

    def abs(self, a):
        return _ew(_abs1)(a)

    def round(self, a, decimals=0, out=None):
        if has_sym(a):
            f = lambda x: round(x, decimals) if is_sym(x) else float(np.round(x, decimals))  # noqa: E731
            r = _ew(f)(a)
            return _ew(lambda x: SR(lift(x)) if isinstance(x, SI) else x)(r) if decimals == 0 else r
        return np.round(a, decimals)

    around = round

    def floor(self, a):
        if has_sym(a):
            return _ew(lambda x: SR(lift(x.floor())) if isinstance(x, SR) else (x if is_sym(x) else float(np.floor(x))))(a)
        return np.floor(a)

    def ceil(self, a):
        if has_sym(a):
            return _ew(lambda x: SR(lift(x.ceil())) if isinstance(x, SR) else (x if is_sym(x) else float(np.ceil(x))))(a)
        return np.ceil(a)

    def exp(self, a):
        return _ew(_exp1)(a)

    def expm1(self, a):
        # exp(x) - 1 over the same uninterpreted exp (its argument is recorded for the overflow obligations)
        return _ew(lambda x: _exp1(x) - 1.0 if is_sym(x) else float(np.expm1(x)))(a)

    def log1p(self, a):
        return _ew(lambda x: _log1(1.0 + x) if is_sym(x) else float(np.log1p(x)))(a)

    def log(self, a):
        return _ew(_log1)(a)

    def sqrt(self, a):
        return _ew(_sqrt1)(a)

    def tanh(self, a):
        return _ew(_tanh1)(a)

    def cos(self, a):
        return _ew(_cos1)(a)

    def sin(self, a):
        return _ew(_sin1)(a)

    def clip(self, a, lo, hi):
        def c1(x):
            if is_sym(x):
                l, h = lift(lo), lift(hi)
                xe = lift(x)
                return SR(z3.If(xe < l, l, z3.If(xe > h, h, xe)))
            return min(max(x, lo), hi)

        return _ew(c1)(a)

    def power(self, a, b):
        return np.asarray(a, dtype=object) ** b if (has_sym(a) or has_sym(b)) else np.power(a, b)

    def min(self, a, *args, **kw):
        if has_sym(a) and not args and not kw:
            vals = np.asarray(a, dtype=object).ravel().tolist()
            r = vals[0]
            for v in vals[1:]:
                r = symx.ite(SB(lift(v) < lift(r)), v, r)
            return r
        return np.min(a, *args, **kw)

    def max(self, a, *args, **kw):
        if has_sym(a) and not args and not kw:
            vals = np.asarray(a, dtype=object).ravel().tolist()
            r = vals[0]
            for v in vals[1:]:
                r = symx.ite(SB(lift(v) > lift(r)), v, r)
            return r
        return np.max(a, *args, **kw)

    def std(self, a, axis=None, **kw):
        if not has_sym(a):
            return np.std(a, axis=axis, **kw)
        a = np.asarray(a, dtype=object)
        m = np.mean(a, axis=axis, keepdims=True)
        v = np.mean((a - m) ** 2, axis=axis)
        return _ew(_sqrt1)(v)

    def divide(self, a, b, out=None, where=True):
        a = np.asarray(a, dtype=object)
        b = np.broadcast_to(np.asarray(b, dtype=object), a.shape)
        res = np.empty(a.shape, dtype=object)
        w = np.broadcast_to(np.asarray(where, dtype=object), a.shape)
        o = np.broadcast_to(out, a.shape) if out is not None else None
        for idx in np.ndindex(*a.shape):
            wi = w[idx]
            if is_sym(wi):
                q = SR(lift(a[idx]) / lift(b[idx]))
                res[idx] = SR(z3.If(sb(wi), q.e, lift(o[idx] if o is not None else 0.0)))
            elif wi:
                if not is_sym(a[idx]) and not is_sym(b[idx]):
                    with np.errstate(all="ignore"):  # numpy semantics: x/0 is inf or nan, never an exception
                        res[idx] = float(np.divide(float(a[idx]), float(b[idx])))
                else:
                    res[idx] = a[idx] / b[idx]
            else:
                res[idx] = o[idx] if o is not None else 0.0
        return res

    def isclose(self, a, b, rtol=1e-05, atol=1e-08, equal_nan=False):
        if not (has_sym(a) or has_sym(b)):
            return np.isclose(a, b, rtol=rtol, atol=atol, equal_nan=equal_nan)
        a = np.asarray(a, dtype=object)
        bb = np.broadcast_to(np.asarray(b, dtype=object), a.shape)
        out = np.empty(a.shape, dtype=object)
        for idx in np.ndindex(*a.shape):
            x, y = lift(a[idx]), lift(bb[idx])
            d = z3.If(x - y >= 0, x - y, y - x)
            ay = z3.If(y >= 0, y, -y)
            out[idx] = SB(d <= lift(atol) + lift(rtol) * ay)
        return out if a.shape else out.item()

    def all(self, a, *args, **kw):
        return np.all(a, *args, **kw)


npw = NPW()

# =========================================================================== math wrapper


class MathW:
    def __getattr__(self, k):
        return getattr(_math, k)

    @staticmethod
    def exp(x):
        if not is_sym(x):
            return _math.exp(x)
        x = x if isinstance(x, SR) else SR(lift(x))
        ov = x > symx.EXPMAX
        if not E().surely_false(sb(ov)) and bool(ov):
            raise OverflowError("math range error")
        return SR(E().app("exp", x.e))

    @staticmethod
    def sqrt(x):
        if not is_sym(x):
            return _math.sqrt(x)
        return (x if isinstance(x, SR) else SR(lift(x))).sqrt()

    @staticmethod
    def log(x, *a):
        if not is_sym(x):
            return _math.log(x, *a)
        return (x if isinstance(x, SR) else SR(lift(x))).log()

    @staticmethod
    def tanh(x):
        return _tanh1(x)

    @staticmethod
    def isnan(x):
        return False if is_sym(x) else _math.isnan(x)


mathw = MathW()


def expm_stub(a):
    """scipy.linalg.expm contract: fresh matrix E with the textbook facts for symmetric arguments."""
    a = np.asarray(a, dtype=object)
    if not has_sym(a):
        from scipy.linalg import expm

        return expm(a.astype(float)).astype(object)
    eng = E()
    key = ("expm",) + tuple(lift(x).get_id() for x in a.ravel().tolist())
    hit = eng.apps.get(key)
    if hit is not None:
        return hit[0].copy()
    m = np.empty((3, 3), dtype=object)
    for i in range(3):
        for j in range(3):
            m[i, j] = eng.fresh(f"expm{i}{j}")
    sym_arg = z3.And(*[lift(a[i, j]) == lift(a[j, i]) for i in range(3) for j in range(i + 1, 3)])
    facts = []
    # symmetric argument => symmetric positive definite result (leading principal minors > 0)
    spd = [m[i, j].e == m[j, i].e for i in range(3) for j in range(i + 1, 3)]
    spd.append(m[0, 0].e > 0)
    spd.append((m[0, 0] * m[1, 1] - m[0, 1] * m[1, 0]).e > 0)
    d = det3(m)
    spd.append(d.e > 0)
    facts.append(z3.Implies(sym_arg, z3.And(*spd)))
    tr = a[0, 0] + a[1, 1] + a[2, 2]
    tre = lift(tr)
    facts.append(d.e > 0)
    facts.append(z3.Implies(tre == 0, d.e == 1))
    et = eng.app("exp", tre)
    facts.append(d.e == et)
    # diagonal argument => diagonal result exp(a_ii)
    offz = z3.And(*[lift(a[i, j]) == 0 for i in range(3) for j in range(3) if i != j])
    diag = [m[i, j].e == 0 for i in range(3) for j in range(3) if i != j]
    diag += [m[i, i].e == eng.app("exp", lift(a[i, i])) for i in range(3)]
    facts.append(z3.Implies(offz, z3.And(*diag)))
    # expm(-A) expm(A) = I for previously seen arguments that are the exact negation
    for k, (pm, pargs) in list(eng.apps.items()):
        if k[0] != "expm":
            continue
        neg = z3.And(*[lift(x) == -y for x, y in zip(a.ravel().tolist(), pargs)])
        prod = pm @ m
        ident = z3.And(*[lift(prod[i, j]) == (1 if i == j else 0) for i in range(3) for j in range(3)])
        facts.append(z3.Implies(neg, ident))
    for f in facts:
        eng.axiom(f)
    eng.apps[key] = (m, tuple(lift(x) for x in a.ravel().tolist()))
    return m.copy()


# =========================================================================== symbolic RNG


class _BitGen:
    def __init__(self, rng):
        self._rng = rng

    @property
    def state(self):
        return {"bit_generator": "SymPCG64", "state": {"token": self._rng.ndraws, "id": self._rng.ident}}

    @state.setter
    def state(self, v):
        self._rng.ident = v["state"]["id"]
        self._rng.ndraws = v["state"]["token"]


class SymRNG:
    """numpy.random.Generator contract: every draw is a fresh variable in the documented range."""

    def __init__(self, tag="own", ident=0):
        self.tag = tag
        self.ident = ident
        self.ndraws = 0
        self.bit_generator = _BitGen(self)
        self.choice_p = []

    def _log(self, kind, value, **extra):
        self.ndraws += 1
        if isinstance(value, np.ndarray):
            value = value.copy()  # callers may mutate the returned array in place
        d = {"kind": kind, "value": value, "site": self.tag}
        d.update(extra)
        E().draws.append(d)

    def _one(self, lo, hi, name):
        u = E().fresh(f"{self.tag}_{name}")
        E().assume(z3.And(u.e >= lift(lo), u.e < lift(hi)))
        return u

    def _many(self, lo, hi, size, name):
        if size is None:
            return self._one(lo, hi, name)
        if isinstance(size, (int, np.integer)):
            size = (int(size),)
        a = np.empty(tuple(size), dtype=object)
        lo_b = np.broadcast_to(np.asarray(lo, dtype=object), a.shape)
        hi_b = np.broadcast_to(np.asarray(hi, dtype=object), a.shape)
        for idx in np.ndindex(*a.shape):
            a[idx] = self._one(lo_b[idx], hi_b[idx], name)
        return a

    def random(self, size=None):
        v = self._many(0, 1, size, "u")
        self._log("random", v, size=size)
        return v

    def uniform(self, low=0.0, high=1.0, size=None):
        v = self._many(low, high, size, "un")
        self._log("uniform", v, size=size, low=low if not is_sym(low) and not symx_has(low) else None, high=high if not is_sym(high) and not symx_has(high) else None, low_t=low, high_t=high)
        return v

    def standard_normal(self, size=None):
        if size is None:
            v = E().fresh(f"{self.tag}_g")
        else:
            if isinstance(size, (int, np.integer)):
                size = (int(size),)
            v = np.empty(tuple(size), dtype=object)
            for idx in np.ndindex(*v.shape):
                v[idx] = E().fresh(f"{self.tag}_g")
        self._log("standard_normal", v, size=size)
        return v

    def choice(self, a, size=None, replace=True, p=None):
        arr = np.asarray(a)
        if arr.ndim == 0:
            arr = np.arange(int(arr))
        n = len(arr)
        if size is not None:
            k = int(size) if not isinstance(size, tuple) else int(np.prod(size))
            ks = []
            for _ in range(k):
                kk = E().fresh(f"{self.tag}_slot", "I")
                E().assume(z3.And(kk.e >= 0, kk.e < n))
                if not replace:
                    for o in ks:
                        E().assume(kk.e != o.e)
                ks.append(kk)
            idx = [int(x) for x in ks]
            self._log("choice", idx, n=n, size=k, replace=bool(replace))
            self.choice_p.append({"n": n, "size": k, "replace": bool(replace), "p": p, "idx": idx})
            return arr[idx] if k else arr[:0]
        if n == 0:
            raise ValueError("a cannot be empty unless no samples are taken")
        kk = E().fresh(f"{self.tag}_pick", "I")
        E().assume(z3.And(kk.e >= 0, kk.e < n))
        if p is not None:
            pl = list(np.asarray(p, dtype=object).ravel().tolist())
            for i in range(n):
                E().assume(z3.Implies(kk.e == i, lift(pl[i]) > 0))
        i = int(kk)
        self._log("choice", i, n=n, size=None, replace=bool(replace))
        self.choice_p.append({"n": n, "size": None, "replace": bool(replace), "p": p, "idx": i, "options": arr.tolist()})
        return arr[i]

    def integers(self, low, high=None, size=None):
        if high is None:
            low, high = 0, low
        if size is not None:
            raise Unsupported("integers(size=...)")
        kk = E().fresh(f"{self.tag}_int", "I")
        E().assume(z3.And(kk.e >= int(low), kk.e < int(high)))
        v = int(kk)
        self._log("integers", v)
        return v

    def normal(self, loc=0.0, scale=1.0, size=None):
        return loc + scale * self.standard_normal(size)


def symx_has(x):
    return has_sym(x)


class ScriptedRNG:
    """Replay generator: returns the solver model's draws in order (real numpy value types)."""

    def __init__(self, draws, fallback_seed=12345):
        if isinstance(draws, dict):  # a whole witness: take its draws and its seed for the fallback generator
            fallback_seed = int(draws.get("random_seed", fallback_seed))
            draws = draws.get("draws", [])
        self.draws = list(draws)
        self.i = 0
        self._fb = np.random.default_rng(fallback_seed)
        self.bit_generator = self._fb.bit_generator
        self.exhausted = False
        self.mismatch = []
        self.requests = []  # (kind, low, high) of every uniform/random request, for obligations on the requested range

    def _next(self, kind):
        if self.i < len(self.draws):
            d = self.draws[self.i]
            self.i += 1
            if d["kind"] != kind:
                self.mismatch.append((self.i - 1, d["kind"], kind))
            return d["value"]
        self.exhausted = True
        return None

    @staticmethod
    def _arr(v):
        return np.array(_deep_float(v), dtype=float)

    def random(self, size=None):
        v = self._next("random")
        if v is None:
            return self._fb.random(size)
        return symx.wfloat(v) if size is None else self._arr(v).reshape(size)

    def uniform(self, low=0.0, high=1.0, size=None):
        self.requests.append(("uniform", low, high))
        v = self._next("uniform")
        if v is None:
            return self._fb.uniform(low, high, size)
        return symx.wfloat(v) if size is None else self._arr(v).reshape(size)

    def standard_normal(self, size=None):
        v = self._next("standard_normal")
        if v is None:
            return self._fb.standard_normal(size)
        return symx.wfloat(v) if size is None else self._arr(v).reshape(size)

    def choice(self, a, size=None, replace=True, p=None):
        arr = np.asarray(a)
        if arr.ndim == 0:
            arr = np.arange(int(arr))
        v = self._next("choice")
        if v is None:
            return self._fb.choice(arr, size=size, replace=replace, p=p)
        if size is None:
            return arr[int(v)]
        return arr[[int(x) for x in v]] if len(v) else arr[:0]

    def integers(self, low, high=None, size=None):
        v = self._next("integers")
        if v is None:
            return self._fb.integers(low, high, size)
        return int(v)

    def normal(self, loc=0.0, scale=1.0, size=None):
        return loc + scale * self.standard_normal(size)


def _deep_float(v):
    if isinstance(v, list):
        return [_deep_float(x) for x in v]
    return symx.wfloat(v)


# =========================================================================== ASE Atoms / Cell on object arrays
from ase import Atoms as _Atoms  # noqa: E402
from ase.cell import Cell as _Cell  # noqa: E402


_CMP_UFUNCS = (np.equal, np.not_equal, np.less, np.less_equal, np.greater, np.greater_equal)


class LArr(np.ndarray):
    """Object array that remembers the logical dtype it stands for (C19 dtype clause).  Comparisons
    give an object array of symbolic booleans (no per-element fork); any()/all() merge them into ONE
    symbolic boolean, so `(a != b).any()` costs a single branch instead of 2^n."""

    ldtype = None

    def __array_finalize__(self, obj):
        self.ldtype = getattr(obj, "ldtype", None)

    def __array_ufunc__(self, ufunc, method, *inputs, **kwargs):
        ins = tuple(np.asarray(x).view(np.ndarray) if isinstance(x, LArr) else x for x in inputs)
        if "out" in kwargs:
            kwargs["out"] = tuple(o.view(np.ndarray) if isinstance(o, LArr) else o for o in kwargs["out"])
        if ufunc in _CMP_UFUNCS and method == "__call__" and any(getattr(x, "dtype", None) == object for x in ins):
            r = ufunc(*ins, dtype=object, **kwargs)
            return r.view(LArr) if isinstance(r, np.ndarray) else r
        r = getattr(ufunc, method)(*ins, **kwargs)
        if isinstance(r, np.ndarray) and r.dtype == object and "out" not in kwargs:
            r = r.view(LArr)
            r.ldtype = self.ldtype
        return r

    def _merge(self, how):
        vals = self.view(np.ndarray).ravel().tolist()
        syms = [v for v in vals if is_sym(v)]
        conc = [bool(v) for v in vals if not is_sym(v)]
        if how == "any":
            if any(conc):
                return True
            return SB(z3.Or(*[sb(v if isinstance(v, SB) else (v != 0)) for v in syms])) if syms else False
        if not all(conc):
            return False
        return SB(z3.And(*[sb(v if isinstance(v, SB) else (v != 0)) for v in syms])) if syms else True

    def any(self, axis=None, out=None, keepdims=False, **kw):
        if self.dtype == object and axis is None:
            return self._merge("any")
        return self.view(np.ndarray).any(axis=axis, out=out, keepdims=keepdims, **kw)

    def all(self, axis=None, out=None, keepdims=False, **kw):
        if self.dtype == object and axis is None:
            return self._merge("all")
        return self.view(np.ndarray).all(axis=axis, out=out, keepdims=keepdims, **kw)


def objectify(a, keep_tag=True):
    a = np.asarray(a)
    if a.dtype.kind == "f":
        o = a.astype(object).view(LArr)
        o.ldtype = a.dtype
        return o
    return a


class SymCell(_Cell):
    def __init__(self, array):
        array = np.asarray(array)
        if array.shape == (3,):
            array = np.diag(array)
        if array.dtype != object:
            array = array.astype(float).astype(object)
        self.array = np.array(array, dtype=object).view(LArr)

    @classmethod
    def new(cls, cell=None):
        if cell is None:
            cell = np.zeros((3, 3))
        if isinstance(cell, _Cell):
            return cls(np.array(cell.array, dtype=object))
        return cls(cell)

    @property
    def volume(self):
        d = det3(self.array)
        if is_sym(d):
            return E().define("vol", abs(d).e)
        return abs(d)

    @property
    def rank(self):
        return 3

    def complete(self):
        return self.copy()

    def copy(self):
        return SymCell(self.array.copy())

    def __array__(self, dtype=None, copy=None):
        if dtype is not None and np.dtype(dtype) != object:
            if has_sym(self.array):
                raise Unsupported("float view of a symbolic cell")
            return self.array.astype(dtype)
        return self.array

    def __bool__(self):
        return True

    def any(self, *a, **k):
        return True

    def __eq__(self, other):
        return symx.same_array(self.array, np.asarray(other, dtype=object))

    def __ne__(self, other):
        return not self.__eq__(other)

    __hash__ = None

    def scaled_positions(self, positions):
        return np.asarray(positions, dtype=object) @ inv3(self.array)

    def cartesian_positions(self, scaled):
        return np.asarray(scaled, dtype=object) @ self.array

    def reciprocal(self):
        return SymCell(inv3(self.array).T)


class SymAtoms(_Atoms):
    """The real ase.Atoms with float arrays held as object arrays.  Only methods that coerce
    to float are re-stated; everything else (extend, __delitem__, __getitem__, copy, constraints) is ASE's."""

    def __init__(self, *a, **k):
        super().__init__(*a, **k)
        for name, v in list(self.arrays.items()):
            self.arrays[name] = objectify(v)

    # -- cell
    def set_cell(self, cell, scale_atoms=False, apply_constraint=True):
        new = SymCell.new(cell)
        if apply_constraint and hasattr(self, "_constraints"):
            for constraint in self.constraints:
                if hasattr(constraint, "adjust_cell"):
                    constraint.adjust_cell(self, new)
        # both updates are in place, as in ase (`self.positions[:] = ...`, `self.cell[:] = cell`): an object holding a
        # reference to atoms.positions or atoms.cell sees the new values
        if scale_atoms:
            M = inv3(self.cell.array) @ new.array
            pos = self.arrays["positions"]
            newpos = np.asarray(pos, dtype=object) @ M
            if pos.dtype == object:
                pos[...] = newpos
            else:
                self.arrays["positions"] = objectify(newpos)
        cur = self.cell
        cur.array[...] = new.array

    @property
    def cell(self):
        c = self._cellobj
        if not isinstance(c, SymCell):
            c = SymCell.new(c)
            self._cellobj = c
        return c

    @cell.setter
    def cell(self, cell):
        self.set_cell(cell)

    def get_cell(self, complete=False):
        return self.cell.copy()

    def get_volume(self):
        return self.cell.volume

    # -- arrays
    def new_array(self, name, a, dtype=None, shape=None):
        if a is not None and (has_sym(a) or (dtype is not None and _isfl(dtype) and dtype is not object) or np.asarray(a).dtype.kind == "f" or np.asarray(a).dtype == object):
            arr = np.array(a, dtype=object)
            if name in self.arrays:
                raise RuntimeError(f"Array {name} already present")
            for b in self.arrays.values():
                if arr.shape[0] != len(b):
                    raise ValueError(f'Array "{name}" has wrong length: {arr.shape[0]} != {len(b)}.')
                break
            if shape is not None and arr.shape[1:] != shape:
                raise ValueError(f'Array "{name}" has wrong shape {arr.shape} != {(arr.shape[0],) + shape}.')
            o = arr.view(LArr)
            o.ldtype = np.dtype(float)
            self.arrays[name] = o
            return
        super().new_array(name, a, dtype, shape)

    def set_array(self, name, a, dtype=None, shape=None):
        b = self.arrays.get(name)
        if b is None:
            if a is not None:
                self.new_array(name, a, dtype, shape)
            return
        if a is None:
            del self.arrays[name]
            return
        a = np.asarray(a, dtype=object if (b.dtype == object or has_sym(a)) else None)
        if a.shape != b.shape:
            raise ValueError(f'Array "{name}" has wrong shape {a.shape} != {b.shape}.')
        if b.dtype == object:
            # in place, as ase does (`b[:] = a`): whoever holds a reference to the array sees the new content
            b[...] = np.array(a, dtype=object)
        elif a.dtype == object:
            # a float array receiving symbols has to change dtype: the only case that rebinds (arrays that may
            # receive symbols are created with object dtype from the start, see mcsim.make_atoms)
            n = np.array(a, dtype=object).view(LArr)
            n.ldtype = getattr(b, "ldtype", None) or b.dtype
            self.arrays[name] = n
        else:
            b[:] = a

    def wrap(self, **wrap_kw):
        """ase.geometry.wrap_positions on proxies: f' = ((f - shift) mod 1) + shift along periodic directions,
        f = fractional coordinates, shift = center - 0.5 - eps (ase's defaults); written, as ase does, straight
        into the positions (no constraint is consulted)."""
        pos = np.asarray(self.arrays["positions"], dtype=object)
        if not has_sym(pos) and not has_sym(np.asarray(self.cell.array, dtype=object)):
            return super().wrap(**wrap_kw)
        pbc = wrap_kw.get("pbc", self.pbc)
        pbc = [bool(pbc)] * 3 if np.ndim(pbc) == 0 else [bool(b) for b in pbc]
        center = np.broadcast_to(np.asarray(wrap_kw.get("center", (0.5, 0.5, 0.5)), dtype=float), (3,))
        eps = float(wrap_kw.get("eps", 1e-7))
        cell = np.asarray(self.cell.array, dtype=object)
        frac = pos @ inv3(cell)
        out = np.empty_like(frac)
        for i in range(len(pos)):
            for k in range(3):
                f = frac[i, k]
                if pbc[k]:
                    sh = float(center[k]) - 0.5 - eps
                    y = f - sh
                    y = y - (y.floor() if isinstance(y, SR) else float(np.floor(y)))
                    f = y + sh
                out[i, k] = f
        self.arrays["positions"] = objectify(out @ cell)

    def set_positions(self, newpositions, apply_constraint=True):
        if self.constraints and apply_constraint:
            newpositions = np.array(newpositions, dtype=object)
            for constraint in self.constraints:
                if hasattr(constraint, "adjust_positions"):
                    constraint.adjust_positions(self, newpositions)
        self.set_array("positions", newpositions, shape=(3,))

    def set_momenta(self, momenta=None, apply_constraint=True):
        if apply_constraint and len(self.constraints) > 0 and momenta is not None:
            momenta = np.array(momenta, dtype=object)
            for constraint in self.constraints:
                if hasattr(constraint, "adjust_momenta"):
                    constraint.adjust_momenta(self, momenta)
        self.set_array("momenta", momenta, float, (3,))

    def get_momenta(self):
        if "momenta" in self.arrays:
            return self.arrays["momenta"].copy()
        return objectify(np.zeros((len(self), 3)))

    def get_kinetic_energy(self):
        mom = self.arrays.get("momenta")
        if mom is None:
            return 0.0
        m = self.get_masses()
        tot = 0.0
        for i in range(len(self)):
            for k in range(3):
                tot = tot + mom[i, k] * mom[i, k] / m[i]
        return 0.5 * tot

    def get_masses(self):
        if "masses" in self.arrays:
            return self.arrays["masses"].copy()
        return super().get_masses()

    def get_scaled_positions(self, wrap=True):
        return self.cell.scaled_positions(self.arrays["positions"])


# =========================================================================== calculator models


class _UF:
    """Uninterpreted potential-energy surface U_N(numbers, positions, cell) and its forces."""

    @staticmethod
    def config_terms(atoms):
        ts = [lift(x) for x in np.asarray(atoms.arrays["positions"], dtype=object).ravel().tolist()]
        ts += [lift(x) for x in np.asarray(atoms.cell.array, dtype=object).ravel().tolist()]
        return ts

    @staticmethod
    def energy(atoms):
        n = len(atoms)
        nums = "_".join(str(int(z)) for z in atoms.numbers)
        ts = _UF.config_terms(atoms)
        f = z3.Function(f"uf_U{n}_{nums}", *([z3.RealSort()] * (len(ts) + 1)))
        return SR(f(*ts))

    @staticmethod
    def forces(atoms):
        n = len(atoms)
        nums = "_".join(str(int(z)) for z in atoms.numbers)
        ts = _UF.config_terms(atoms)
        out = np.empty((n, 3), dtype=object)
        for i in range(n):
            for k in range(3):
                f = z3.Function(f"uf_F{n}_{nums}_{i}{k}", *([z3.RealSort()] * (len(ts) + 1)))
                out[i, k] = SR(f(*ts))
        return out


def same_config(a, b):
    if len(a) != len(b) or list(a.numbers) != list(b.numbers):
        return "numbers"
    if not symx.same_array(a.arrays["positions"], b.arrays["positions"]):
        return "positions"
    if not symx.same_array(a.cell.array, b.cell.array):
        return "cell"
    return None


class StatelessCalc:
    """Recomputes on every request; no cache.  `results` exists (ASE convention) and is rebound."""

    kind = "stateless"

    def __init__(self):
        self.results = {}
        self.nevals = 0
        self.log = []

    def _compute(self, atoms):
        self.nevals += 1
        self.results = {"energy": _UF.energy(atoms), "forces": _UF.forces(atoms)}
        self.log.append(("eval", len(atoms)))

    def get_potential_energy(self, atoms=None, force_consistent=False):
        self._compute(atoms)
        return self.results["energy"]

    def get_forces(self, atoms=None):
        self._compute(atoms)
        return self.results["forces"].copy()

    def reset(self):
        self.results = {}


class CachingCalc:
    """The ase.calculators.calculator.Calculator contract: `atoms` snapshot + `results`,
    recompute iff the system differs from the snapshot; results are rebound, never mutated."""

    kind = "caching"

    def __init__(self):
        self.results = {}
        self.atoms = None
        self.nevals = 0
        self.log = []

    def _changes(self, atoms):
        if self.atoms is None:
            return "all"
        return same_config(self.atoms, atoms)

    def _calculate(self, atoms, ch):
        self.nevals += 1
        self.atoms = atoms.copy()
        self.results = {"energy": _UF.energy(atoms), "forces": _UF.forces(atoms)}
        self.log.append(("eval", len(atoms), ch))

    def _ensure(self, atoms, key):
        ch = self._changes(atoms)
        if ch or key not in self.results:
            self._calculate(atoms, ch or "missing")

    def get_potential_energy(self, atoms=None, force_consistent=False):
        self._ensure(atoms, "energy")
        return self.results["energy"]

    def get_forces(self, atoms=None):
        self._ensure(atoms, "forces")
        return self.results["forces"].copy()

    def reset(self):
        self.atoms = None
        self.results = {}


class NeighbourListCalc(CachingCalc):
    """Caching + per-atom internal state (neighbour list) that is rebuilt only when `numbers`
    is among the detected changes (EMT / EAM / LennardJones contract).  Unusable when its size
    disagrees with the atoms it is asked about."""

    kind = "neighbourlist"

    def __init__(self):
        super().__init__()
        self.nl_size = None
        self.broken = None

    def _calculate(self, atoms, ch):
        if ch in ("all", "numbers"):
            self.nl_size = len(atoms)
        if self.nl_size != len(atoms):
            self.broken = (self.nl_size, len(atoms))
            raise ValueError(f"operands could not be broadcast together (neighbour list sized {self.nl_size}, atoms {len(atoms)})")
        super()._calculate(atoms, ch)

    def _changes(self, atoms):
        if self.atoms is None:
            return "all"
        if len(self.atoms) != len(atoms):
            return "numbers"
        if list(self.atoms.numbers) != list(atoms.numbers):
            return "numbers"
        return same_config(self.atoms, atoms)


CALCS = {"stateless": StatelessCalc, "caching": CachingCalc, "neighbourlist": NeighbourListCalc}

# =========================================================================== patcher

_ORIG = {}


def patch_quansino(extra=None):
    """Replace, by identity, quansino module globals bound to numpy/math/exp/expm/Atoms with shims."""
    import math
    import numpy
    import scipy.linalg
    import ase.atoms
    import quansino  # noqa: F401
    import quansino.mc  # noqa: F401  (import order as the tests use)
    import quansino.moves  # noqa: F401
    import quansino.operations  # noqa: F401
    import quansino.integrators  # noqa: F401
    import quansino.utils  # noqa: F401
    import quansino.io  # noqa: F401
    import quansino.constraints  # noqa: F401

    try:
        import quansino.mc.isotension  # noqa: F401
    except Exception:
        pass

    table = [
        (numpy, npw),
        (math, mathw),
        (math.exp, mathw.exp),
        (math.sqrt, mathw.sqrt),
        (math.log, mathw.log),
        (scipy.linalg.expm, expm_stub),
        (ase.atoms.Atoms, SymAtoms),
    ]
    if extra:
        table += list(extra)
    n = 0
    for mname, mod in list(sys.modules.items()):
        if not (mname == "quansino" or mname.startswith("quansino.")) or mod is None:
            continue
        for k, v in list(vars(mod).items()):
            for orig, repl in table:
                if v is orig:
                    _ORIG.setdefault((mname, k), v)
                    setattr(mod, k, repl)
                    n += 1
    return n


def unpatch_quansino():
    for (mname, k), v in _ORIG.items():
        setattr(sys.modules[mname], k, v)
    _ORIG.clear()
