"""Shared scenario builders for the one-trial induction harnesses (C03, C04, C05, C11, C12, ...).

Everything is dual-mode: with V = symx.Sym() the real quansino drivers run on proxies (patched
module globals, SymAtoms, SymRNG, model calculators over an uninterpreted potential-energy
surface); with V = symx.Replay(witness) the same scenario runs on plain floats against the
unpatched modules, a scripted generator and a concrete calculator implementing the same contracts.
"""
from __future__ import annotations

import numpy as np
import z3

from . import shims, symx
from .symx import E, SB, SI, SR, lift

SYMBOLS = "CuAgAuPt"
CELL = [[6.0, 0.0, 0.0], [0.5, 5.5, 0.0], [0.25, -0.5, 7.0]]


# --------------------------------------------------------------------------- potential-energy surface
class PES:
    """U(numbers, positions, cell): uninterpreted function (sym) / table filled from the model (replay)."""

    def __init__(self, V):
        self.V = V
        self.mode = V.mode
        self.log = []  # energies in order of first evaluation of each distinct configuration
        self.table = {}
        self.scripted = list((V.w.get("evals") or {}).get("pes", [])) if V.mode == "replay" else []
        self.nfresh = 0
        if self.mode == "sym":
            E().evals["pes"] = self.log  # every witness carries the energies, in first-evaluation order

    def _key(self, atoms):
        return (tuple(int(z) for z in atoms.numbers), np.asarray(atoms.positions, dtype=float).round(12).tobytes(), np.asarray(atoms.cell.array, dtype=float).round(12).tobytes())

    def energy(self, atoms):
        if self.mode == "sym":
            e = shims._UF.energy(atoms)
            k = e.e.get_id()
            if k not in self.table:
                self.table[k] = e
                self.log.append(e)
            return e
        k = self._key(atoms)
        if k not in self.table:
            if self.nfresh < len(self.scripted):
                val = symx.wfloat(self.scripted[self.nfresh])
            else:
                p = np.asarray(atoms.positions, dtype=float)
                val = float(np.sum(np.sin(1.3 * p + 0.7)) + 0.01 * np.sum(atoms.cell.array) + 0.5 * len(atoms))
            self.nfresh += 1
            self.table[k] = val
        return self.table[k]

    def forces(self, atoms):
        if self.mode == "sym":
            return shims._UF.forces(atoms)
        p = np.asarray(atoms.positions, dtype=float)
        return -1.3 * np.cos(1.3 * p + 0.7)


class ModelCalc:
    """The three calculator contracts (stateless / result-caching / caching + neighbour list)."""

    def __init__(self, kind, pes):
        self.kind = kind
        self.pes = pes
        self.mode = pes.mode
        self.results = {}
        self.atoms = None
        self.nl_size = None
        self.nevals = 0
        self.evlog = []
        self.broken = None

    # -- comparison of the remembered system with the one asked about (ase compare_atoms contract)
    def _changes(self, atoms):
        if self.atoms is None:
            return "all"
        a = self.atoms
        if len(a) != len(atoms) or list(a.numbers) != list(atoms.numbers):
            return "numbers"
        if self.mode == "sym":
            if not symx.same_array(a.arrays["positions"], atoms.arrays["positions"]):
                return "positions"
            if not symx.same_array(a.cell.array, atoms.cell.array):
                return "cell"
        else:
            if not np.array_equal(a.positions, atoms.positions):
                return "positions"
            if not np.array_equal(a.cell.array, atoms.cell.array):
                return "cell"
        return None

    def _calculate(self, atoms, ch):
        if self.kind == "neighbourlist":
            if ch in ("all", "numbers"):
                self.nl_size = len(atoms)
            if self.nl_size != len(atoms):
                self.broken = (self.nl_size, len(atoms))
                raise ValueError(f"operands could not be broadcast together with shapes ({self.nl_size},3) ({len(atoms)},3)")
        self.nevals += 1
        self.evlog.append((len(atoms), ch))
        if self.kind != "stateless":
            self.atoms = atoms.copy()
        self.results = {"energy": self.pes.energy(atoms), "forces": self.pes.forces(atoms)}

    def _ensure(self, atoms, key):
        if self.kind == "stateless":
            self._calculate(atoms, "always")
            return
        ch = self._changes(atoms)
        if ch or key not in self.results:
            self._calculate(atoms, ch or "missing")

    def get_potential_energy(self, atoms=None, force_consistent=False):
        self._ensure(atoms, "energy")
        return self.results["energy"]

    def get_forces(self, atoms=None):
        self._ensure(atoms, "forces")
        f = self.results["forces"]
        return f.copy()

    def reset(self):
        self.atoms = None
        self.results = {}


# --------------------------------------------------------------------------- atoms
def make_atoms(V, n, momenta=False, extras=True, fixed=(), masses=None, cell=True, prefix="x"):
    sym = V.mode == "sym"
    pos = V.array(prefix, (n, 3))
    cls = shims.SymAtoms if sym else __import__("ase").Atoms
    formula = "".join(["Cu", "Ag", "Au", "Pt"][i % 4] for i in range(n))
    if n == 0:
        a = cls(cell=CELL if cell else None, pbc=bool(cell))
    else:
        a = cls(formula, positions=np.zeros((n, 3)) if sym else pos, cell=CELL if cell else None, pbc=bool(cell))
    if sym and n:
        a.arrays["positions"] = np.array(pos, dtype=object)
    if masses is not None:
        a.set_masses(masses)
    if momenta:
        p = V.array("p", (n, 3))
        if sym:
            a.arrays["momenta"] = np.array(p, dtype=object)
        else:
            a.set_momenta(p, apply_constraint=False)
    if extras:
        a.set_tags(np.arange(10, 10 + n))  # ghost identities: survive any reordering
        q = V.array("q", (n,))
        c2 = V.array("c", (n, 2))
        if sym:
            a.arrays["initial_charges"] = np.array(q, dtype=object)
            a.arrays["custom"] = np.array(c2, dtype=object)
        else:
            a.set_initial_charges(q)
            a.set_array("custom", c2)
    if fixed:
        from ase.constraints import FixAtoms

        a.set_constraint(FixAtoms(indices=list(fixed)))
    return a


def snapshot(V, atoms):
    snap = {"n": len(atoms), "numbers": list(atoms.numbers), "arrays": {k: np.array(v, dtype=v.dtype).copy() for k, v in atoms.arrays.items()}, "cell": np.array(atoms.cell.array).copy(), "momenta": np.array(atoms.get_momenta()).copy(), "fixed": [sorted(int(i) for i in c.index) for c in atoms.constraints if hasattr(c, "index") and not isinstance(c.index, slice)], "names": sorted(atoms.arrays)}
    return snap


def same(V, a, b):
    """Bit-for-bit equality: identical terms (sym) / identical bytes (replay)."""
    if V.mode == "sym":
        return symx.same_array(a, b)
    a = np.asarray(a)
    b = np.asarray(b)
    return a.shape == b.shape and bool(np.array_equal(a, b))


def restored(V, atoms, snap):
    """List of what differs from the snapshot (empty = exactly restored)."""
    diff = []
    if len(atoms) != snap["n"]:
        return [f"atom count {snap['n']} -> {len(atoms)}"]
    if list(atoms.numbers) != snap["numbers"]:
        diff.append("numbers/order")
    if sorted(atoms.arrays) != snap["names"]:
        diff.append(f"array set {snap['names']} -> {sorted(atoms.arrays)}")
    for k, v in snap["arrays"].items():
        if k in atoms.arrays and not same(V, atoms.arrays[k], v):
            diff.append(f"array {k}")
    if not same(V, atoms.cell.array, snap["cell"]):
        diff.append("cell")
    if not same(V, atoms.get_momenta(), snap["momenta"]):
        diff.append("momenta")
    fixed = [sorted(int(i) for i in c.index) for c in atoms.constraints if hasattr(c, "index") and not isinstance(c.index, slice)]
    if fixed != snap["fixed"]:
        diff.append(f"constrained atoms {snap['fixed']} -> {fixed}")
    return diff


# --------------------------------------------------------------------------- labels
def labels_for(V, n, lo=-1, hi=2, name="lab", molecular=False):
    """Concrete labeling per path; all labelings in [lo,hi]^n are enumerated by solver-driven forks."""
    if molecular:
        # one diatomic particle (atoms 0,1) + the rest labelled individually or negative
        labs = [0, 0] + [int(V.int(f"{name}{i}", lo, hi)) for i in range(2, n)]
        return np.array(labs[:n], dtype=int)
    return np.array([int(V.int(f"{name}{i}", lo, hi)) for i in range(n)], dtype=int)


# --------------------------------------------------------------------------- criteria / checks
class CoinCriteria:
    """Documented Criteria protocol: one energy evaluation, then a uniform draw decides."""

    def __init__(self):
        self.calls = 0

    def evaluate(self, context):
        self.calls += 1
        context.atoms.get_potential_energy()
        return context.rng.random() < 0.5

    def to_dict(self):
        return {"name": "CoinCriteria"}

    @classmethod
    def from_dict(cls, data):
        return cls()


def symbolic_check(V, tag, log=None):
    """A user `check_move`: verdict per attempt is a fresh boolean (sym) / taken from the witness."""
    state = {"k": 0}

    def check(context):
        k = state["k"]
        state["k"] += 1
        v = V.bool(f"{tag}_chk{k}")
        r = bool(v)
        if log is not None:
            log.append(r)
        return r

    return check


def make_rng(V, tag="own"):
    if V.mode == "sym":
        return shims.SymRNG(tag)
    return shims.ScriptedRNG(V.w)


def install_rng(mc, rng):
    mc._rng = rng
    mc.context.rng = rng


def run_trial(mc):
    """One trial through the real MonteCarlo.step (max_cycles must be 1)."""
    for _ in mc.step():
        pass
    return mc.move_history[-1] if mc.move_history else (None, "no-move")


# --------------------------------------------------------------------------- drivers and move tables
def make_move(V, kind, labels, n, check=None, step=0.3):
    from quansino.moves.cell import CellMove
    from quansino.moves.displacement import DisplacementMove, HamiltonianDisplacementMove
    from quansino.moves.exchange import ExchangeMove
    from quansino.operations.cell import IsotropicDeformation, ShapeDeformation
    from quansino.operations.displacement import Box, Translation

    def chk(m, tag):
        if check:
            m.max_attempts = 2
            m.check_move = symbolic_check(V, tag)
        return m

    if kind == "d":
        return chk(DisplacementMove(labels.copy(), Box(step)), "d")
    if kind == "d2":
        return chk(DisplacementMove(labels.copy(), Box(step)), "d") * 2
    if kind == "d+d":
        return chk(DisplacementMove(labels.copy(), Box(step)), "da") + chk(DisplacementMove(labels.copy(), Box(step)), "db")
    if kind == "cell":
        return chk(CellMove(IsotropicDeformation(0.05)), "c")
    if kind == "shape":
        return chk(CellMove(ShapeDeformation(0.05), scale_atoms=False), "c")
    if kind == "d+cell":
        return chk(DisplacementMove(labels.copy(), Box(step)), "d") + chk(CellMove(IsotropicDeformation(0.05)), "c")
    if kind == "e":
        return chk(ExchangeMove(labels.copy(), Translation()), "e")
    if kind == "e2":
        return chk(ExchangeMove(labels.copy(), Translation()), "e") * 2
    if kind == "e+e":
        return chk(ExchangeMove(labels.copy(), Translation()), "ea") + chk(ExchangeMove(labels.copy(), Translation()), "eb")
    if kind == "swap":
        # a generic composite whose two exchange moves go opposite ways: one deletion and one insertion per trial
        from quansino.moves.composite import CompositeMove

        return CompositeMove([chk(ExchangeMove(labels.copy(), Translation(), bias_towards_insert=0.0), "ea"), chk(ExchangeMove(labels.copy(), Translation(), bias_towards_insert=1.0), "eb")])
    if kind == "e+d":
        return chk(ExchangeMove(labels.copy(), Translation()), "e") + chk(DisplacementMove(labels.copy(), Box(step)), "d")
    if kind == "h":
        from quansino.integrators.displacement import Verlet

        m = HamiltonianDisplacementMove(operation=Verlet(dt=1.0, max_steps=1))
        if check:
            m.max_attempts = 2
            m.check_move = symbolic_check(V, "h")
        return m
    raise KeyError(kind)


def make_driver(V, driver, atoms, seed=11, exchange=None, nexch=None):
    from quansino.mc.canonical import Canonical, HamiltonianCanonical
    from quansino.mc.gcmc import GrandCanonical
    from quansino.mc.isobaric import Isobaric
    from quansino.mc.isotension import Isotension

    if driver == "Canonical":
        return Canonical(atoms, temperature=300.0, max_cycles=1, seed=seed)
    if driver == "HamiltonianCanonical":
        return HamiltonianCanonical(atoms, temperature=300.0, max_cycles=1, seed=seed)
    if driver == "Isobaric":
        return Isobaric(atoms, temperature=300.0, pressure=0.01, max_cycles=1, seed=seed)
    if driver == "Isotension":
        return Isotension(atoms, temperature=300.0, pressure=0.01, external_stress=np.diag([0.01, 0.02, 0.0]), max_cycles=1, seed=seed)
    if driver == "GrandCanonical":
        return GrandCanonical(atoms, exchange_atoms=exchange, temperature=300.0, chemical_potential=-0.2, number_of_exchange_particles=nexch or 0, max_cycles=1, seed=seed)
    raise KeyError(driver)


def exchange_species(V, k=1):
    sym = V.mode == "sym"
    cls = shims.SymAtoms if sym else __import__("ase").Atoms
    pos = V.array("ex", (k, 3))
    a = cls("Cu" if k == 1 else "AgAu", positions=np.zeros((k, 3)) if sym else pos)
    if sym:
        a.arrays["positions"] = np.array(pos, dtype=object)
    return a
