import sys
from .runner import main
if __name__ == "__main__":
    sys.exit(main())
