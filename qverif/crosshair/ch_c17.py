"""CrossHair twin of C17: the real move algebra against a reference flattener."""
import warnings

warnings.simplefilter("ignore")
import quansino.mc  # noqa: F401,E402
from quansino.moves.cell import CellMove  # noqa: E402
from quansino.moves.composite import CompositeMove  # noqa: E402
from quansino.moves.displacement import CompositeDisplacementMove, DisplacementMove  # noqa: E402
from quansino.moves.exchange import CompositeExchangeMove, ExchangeMove  # noqa: E402


def _leaf(kind: int):
    if kind == 0:
        return DisplacementMove([0, 1])
    if kind == 1:
        return ExchangeMove([0, 1])
    return CellMove()


def algebra(shape: int, k0: int, k1: int, k2: int, n: int) -> bool:
    """
    pre: 0 <= shape <= 3 and 0 <= k0 <= 2 and 0 <= k1 <= 2 and 0 <= k2 <= 2 and 1 <= n <= 3
    post: _
    """
    a, b, c = _leaf(k0), _leaf(k1), _leaf(k2)
    if shape == 0:
        e, exp, kinds = (a + b) + c, [a, b, c], {k0, k1, k2}
    elif shape == 1:
        e, exp, kinds = a + (b + c), [a, b, c], {k0, k1, k2}
    elif shape == 2:
        e, exp, kinds = (a * n) + b, [a] * n + [b], {k0, k1}
    else:
        e, exp, kinds = a + (b * n), [a] + [b] * n, {k0, k1}
    same = len(e.moves) == len(exp) and all(x is y for x, y in zip(e.moves, exp))
    want = CompositeDisplacementMove if kinds == {0} else CompositeExchangeMove if kinds == {1} else CompositeMove
    return same and type(e) is want
