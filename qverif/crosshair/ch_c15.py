"""CrossHair twin of C15's cadence clause: real Driver.irun / call_observers / converged."""
from typing import List
import warnings

warnings.simplefilter("ignore")
import quansino.mc  # noqa: F401,E402
from quansino.mc.driver import Driver  # noqa: E402


class _Obs:
    def __init__(self, interval, sim, log):
        self.interval, self.sim, self.log = interval, sim, log

    def __call__(self):
        self.log.append(self.sim.step_count)

    def close(self):
        pass


class _D(Driver):
    def step(self):
        return None


def cadence(interval: int, a: int, b: int) -> List[int]:
    """
    pre: -4 <= interval <= 4 and interval != 0 and 0 <= a <= 3 and 0 <= b <= 3
    post: _ == ([0] + [k for k in range(1, a + b + 1) if k % interval == 0] if interval > 0 else [k for k in range(1, a + b + 1) if k == -interval])
    """
    d = _D(seed=1)
    log: List[int] = []
    d.file_manager.attach_observer("o", _Obs(interval, d, log))
    d.run(a)
    d.run(b)
    return log
