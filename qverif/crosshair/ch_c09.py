"""CrossHair twin of C09's refusal clause: the real MonteCarlo.add_move guard."""
import warnings

warnings.simplefilter("ignore")
from ase import Atoms  # noqa: E402
import quansino.mc  # noqa: F401,E402
from quansino.mc.core import MonteCarlo  # noqa: E402


class _M:
    def __call__(self, c):
        return False

    def to_dict(self):
        return {}


class _C:
    def evaluate(self, c):
        return True

    def to_dict(self):
        return {}


def guard(cycles: int, m1: int, m2: int) -> int:
    """
    pre: 1 <= cycles <= 5 and 0 <= m1 <= 6 and 0 <= m2 <= 6
    post: _ == (0 if m1 > cycles else (1 if m1 + m2 > cycles else 2))
    """
    mc = MonteCarlo(Atoms("H"), max_cycles=cycles, seed=1)
    n = 0
    for name, m in (("a", m1), ("b", m2)):
        try:
            mc.add_move(_M(), _C(), name=name, minimum_count=m)
            n += 1
        except ValueError:
            if name == "a":
                return 0
    return n
