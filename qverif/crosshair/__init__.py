"""PEP316 contracts over the real quansino code for CrossHair (second engine, cross-check only)."""
