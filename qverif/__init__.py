"""qverif: solver-based checking of the real quansino code (see /verif/DESIGN.md)."""
