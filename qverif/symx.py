"""symx -- shadow symbolic execution of real Python/numpy code on z3-backed proxies.

The real quansino functions are executed by CPython on proxy scalars (SR real,
SI int, SB bool) that live inside numpy object arrays.  ``SB.__bool__`` forks:
paths are explored by re-execution with a decision prefix (DFS).  Obligations
are discharged with ``prove`` (PC and assumptions and axioms and not(goal) must
be unsat).  Every solver call has a timeout; ``unknown`` at a fork explores the
side anyway, ``unknown`` at an obligation is inconclusive.

A second mode ("replay") runs the very same harness on plain floats taken from
a solver model, against the unpatched real code; see ``Replay``.
"""
from __future__ import annotations

import fractions
import math
import multiprocessing as mp
import os
import time
import traceback
from collections import Counter

import numpy as np
import z3

Fraction = fractions.Fraction


class PathAbort(BaseException):
    """Current path is infeasible."""


class BoundHit(BaseException):
    """A stated bound (loop unwinding, value domain, path budget) was exceeded."""


class Unsupported(Exception):
    """A construct the engine refuses to concretise silently."""


class ReplayMismatch(Exception):
    """Replay could not follow the witness (assumption false on concrete values)."""


EXPMAX = Fraction(709.782712893384)  # ln(DBL_MAX) as the exact rational of its double


# --------------------------------------------------------------------------- engine
class Engine:
    cur: "Engine | None" = None

    def __init__(self, prefix, opts=None):
        opts = opts or {}
        self.solver = z3.Solver()
        self.fork_timeout = int(opts.get("fork_timeout_ms", 3000))
        self.prove_timeout = int(opts.get("prove_timeout_ms", 10000))
        self.seed = int(opts.get("seed", 0))
        self.no_witness = bool(opts.get("no_witness"))
        self.rlimit_per_ms = int(opts.get("rlimit_per_ms", int(os.environ.get("QVERIF_RLIMIT_PER_MS", "4000"))))
        self.witness_budget_s = float(opts.get("witness_budget_s", 45.0))
        self.cvc5_budget = int(opts.get("cvc5_recheck", 0))
        if self.seed:
            self.solver.set("random_seed", self.seed % (2**31))
        self.prefix = list(prefix)
        self.pos = 0
        self.work = []
        self.pc = []
        self.assumps = []
        self.model = None
        self.decided = {}
        self.decided_vals = {}
        self.cnt = 0
        self.symbols = {}
        self.ranges = {}
        self.draws = []
        self.oblig = []
        self.failures = []
        self.inconclusive = []
        self.notes = {}
        self.reached = set()
        self.apps = {}
        self.np_exp_args = []
        self.safety = []
        self.nq = Counter()
        self.tsolve = 0.0
        self.trig = {}
        self.evals = {}

    # ---- solver plumbing
    def _check(self, extra, timeout):
        t = time.time()
        self.solver.set("timeout", int(timeout * slack()))
        # resource limit as well: unlike the wall-clock timeout it is honoured inside nlsat
        self.solver.set("rlimit", int(timeout) * self.rlimit_per_ms)
        if extra:
            self.solver.push()
            self.solver.add(*extra)
            r = hard_check(self.solver, timeout)
            m = None
            if r == z3.sat:
                try:
                    m = self.solver.model()
                except z3.Z3Exception:
                    m = None
            self.solver.pop()
        else:
            r = hard_check(self.solver, timeout)
            m = None
            if r == z3.sat:
                try:
                    m = self.solver.model()
                except z3.Z3Exception:
                    m = None
        self.tsolve += time.time() - t
        self.nq[str(r)] += 1
        return r, m

    def _add(self, c, keep_model=False):
        self.solver.add(c)
        if self.model is not None and not keep_model:
            try:
                v = self.model.eval(c, model_completion=True)
                if not z3.is_true(v):
                    self.model = None
            except z3.Z3Exception:
                self.model = None

    def _get_model(self):
        if self.model is None:
            r, m = self._check((), self.fork_timeout)
            if r == z3.unsat:
                raise PathAbort()
            self.model = m
        return self.model

    # ---- public: assumptions, forks, obligations
    def assume(self, c, label=None):
        c = sb(c)
        c = z3.simplify(c)
        if z3.is_true(c):
            return
        if z3.is_false(c):
            raise PathAbort()
        self._add(c)
        self.assumps.append(c)

    def axiom(self, c):
        self._add(c)

    def decide(self, cond):
        cid = cond.get_id()
        d = self.decided.get(cid)
        if d is not None:
            return d
        if self.pos < len(self.prefix):
            d = self.prefix[self.pos]
            if not isinstance(d, bool):
                raise RuntimeError("non-deterministic re-execution (bool fork met value entry)")
            self.pos += 1
        else:
            d = self._new_decision(cond)
            self.prefix.append(d)
            self.pos += 1
        c = cond if d else z3.Not(cond)
        self._add(c, keep_model=True)
        if self.model is not None:
            try:
                if not z3.is_true(self.model.eval(c, model_completion=True)):
                    self.model = None
            except z3.Z3Exception:
                self.model = None
        self.pc.append(c)
        self.decided[cid] = d
        return d

    def _new_decision(self, cond):
        m = None
        try:
            m = self._get_model()
        except PathAbort:
            raise
        d0 = None
        if m is not None:
            try:
                v = m.eval(cond, model_completion=True)
                if z3.is_true(v):
                    d0 = True
                elif z3.is_false(v):
                    d0 = False
            except z3.Z3Exception:
                d0 = None
        if d0 is not None:
            other = z3.Not(cond) if d0 else cond
            r, _ = self._check((other,), self.fork_timeout)
            if r != z3.unsat:
                self.work.append(self.prefix[: self.pos] + [not d0])
            return d0
        rt, mt = self._check((cond,), self.fork_timeout)
        rf, mf = self._check((z3.Not(cond),), self.fork_timeout)
        t = rt != z3.unsat
        f = rf != z3.unsat
        if t and f:
            self.work.append(self.prefix[: self.pos] + [False])
            self.model = mt
            return True
        if t:
            self.model = mt
            return True
        if f:
            self.model = mf
            return False
        raise PathAbort()

    def value_of(self, e):
        """Concrete value of an Int-sorted term, forking over all feasible values."""
        se = z3.simplify(e)
        if z3.is_int_value(se):
            return se.as_long()
        key = e.get_id()
        if key in self.decided_vals:
            return self.decided_vals[key]
        excl = ()
        chosen = None
        if self.pos < len(self.prefix):
            ent = self.prefix[self.pos]
            if isinstance(ent, bool):
                raise RuntimeError("non-deterministic re-execution (value fork met bool entry)")
            _, chosen, excl = ent
            for x in excl:
                c = e != x
                self._add(c)
                self.pc.append(c)
            if chosen is None:
                self.prefix.pop()
            else:
                self.pos += 1
        if chosen is None:
            if len(excl) > 64:
                raise BoundHit("value fork over more than 64 values")
            self.model = None
            r, m = self._check((), self.prove_timeout)
            if r == z3.unsat:
                raise PathAbort()
            if m is None:
                raise BoundHit("no model for value fork (solver unknown)")
            self.model = m
            chosen = m.eval(e, model_completion=True).as_long()
            r, _ = self._check((e != chosen,), self.fork_timeout)
            if r != z3.unsat:
                self.work.append(self.prefix[: self.pos] + [("v", None, tuple(excl) + (chosen,))])
            self.prefix.append(("v", chosen, tuple(excl)))
            self.pos += 1
        c = e == chosen
        self._add(c)
        self.pc.append(c)
        self.decided_vals[key] = chosen
        return chosen

    def define(self, name, term):
        """Fresh real symbol constrained to equal `term` (keeps big polynomials out of UF arguments)."""
        key = ("def", term.get_id())
        hit = self.apps.get(key)
        if hit is None:
            v = self.fresh(name)
            self.axiom(v.e == term)
            self.apps[key] = (v, (term,))
            hit = (v,)
        return hit[0]

    def surely_false(self, cond, timeout=400):
        """True iff  contradicts the input assumptions alone (ranges of inputs and draws); a cheap,
        sound pre-check that keeps trivially infeasible branches (e.g. exp overflow of a bounded draw)
        from being explored when the full path condition makes the solver time out."""
        try:
            s = z3.Solver()
            s.set("timeout", timeout)
            s.add(*self.assumps)
            s.add(cond)
            return hard_check(s, timeout) == z3.unsat
        except z3.Z3Exception:
            return False

    def scoped(self):
        """Context manager: everything created inside (axioms, UF applications, trig pairs) is discarded."""
        eng = self

        class _Scope:
            def __enter__(self_):
                eng.solver.push()
                self_.saved = (dict(eng.apps), dict(eng.trig), len(eng.safety), len(eng.np_exp_args), eng.model)
                return eng

            def __exit__(self_, *a):
                eng.solver.pop()
                eng.apps, eng.trig = self_.saved[0], self_.saved[1]
                del eng.safety[self_.saved[2]:]
                del eng.np_exp_args[self_.saved[3]:]
                eng.model = self_.saved[4]
                return False

        return _Scope()

    def pi(self):
        """The real number pi as a symbol with tight rational bounds (np.pi is modelled as pi itself)."""
        hit = self.apps.get(("PI",))
        if hit is None:
            p = z3.Real("PI")
            self.axiom(z3.And(p > z3.RealVal(Fraction(3141592653589793, 10**15)), p < z3.RealVal(Fraction(3141592653589794, 10**15))))
            self.apps[("PI",)] = (SR(p), ())
            hit = self.apps[("PI",)]
        return hit[0]

    def fresh(self, name, sort="R"):
        self.cnt += 1
        n = f"{name}#{self.cnt}"
        if sort == "R":
            return SR(z3.Real(n))
        if sort == "I":
            return SI(z3.Int(n))
        return SB(z3.Bool(n))

    def reach(self, label):
        self.reached.add(label)

    def note(self, key, value):
        self.notes[key] = value

    def prove(self, phi, label, evals=None, info=None):
        """Obligation: phi holds on this path for all values.  Returns True iff discharged."""
        phi = sb(phi)
        s = z3.simplify(phi)
        if z3.is_true(s):
            self.oblig.append((label, "syntactic"))
            return True
        r, m = self._check((z3.Not(phi),), self.prove_timeout)
        if r == z3.unknown:
            r, m = self._portfolio(z3.Not(phi))
        if r == z3.unsat:
            self.oblig.append((label, "unsat"))
            if self.cvc5_budget > 0:
                self.cvc5_budget -= 1
                self._cvc5_recheck(z3.Not(phi), label)
            return True
        if r == z3.sat and m is not None:
            self.oblig.append((label, "sat"))
            if self.no_witness:
                self.failures.append({"label": label, "witness": {}, "alts": [], "info": info, "prefix_len": len(self.prefix)})
                return False
            ws = self._witnesses_budgeted(z3.Not(phi), m, evals)
            self.failures.append({"label": label, "witness": ws[0], "alts": ws[1:], "info": info, "prefix_len": len(self.prefix)})
            return False
        self.oblig.append((label, "unknown"))
        self.inconclusive.append(label)
        return False

    def _cvc5_recheck(self, goal, label):
        """Second solver on a z3 `unsat`: the same query, exported as SMT-LIB2, decided by cvc5.
        cvc5 `sat` = disagreement (harness error); `unknown`/timeout is only recorded."""
        t = time.time()
        try:
            import cvc5

            tmp = z3.Solver()
            tmp.add(*self.solver.assertions())
            tmp.add(goal)
            text = tmp.to_smt2()
            tm = cvc5.TermManager()
            slv = cvc5.Solver(tm)
            slv.setOption("tlimit-per", "5000")
            slv.setLogic("ALL")
            parser = cvc5.InputParser(slv)
            parser.setStringInput(cvc5.InputLanguage.SMT_LIB_2_6, text, "q")
            sm = parser.getSymbolManager()
            res = "unknown"
            while True:
                cmd = parser.nextCommand()
                if cmd.isNull():
                    break
                out = str(cmd.invoke(slv, sm)).strip()
                if out in ("sat", "unsat", "unknown"):
                    res = out
        except Exception as ex:  # noqa: BLE001  (parse problems etc.: recorded, not a verdict)
            res = "error:" + type(ex).__name__
        self.tsolve += time.time() - t
        self.nq["cvc5:" + res] += 1
        if res == "sat":
            self.inconclusive.append(f"{label}: cvc5 disagrees with z3's unsat")

    def _portfolio(self, goal):
        """Second opinions for `unknown`: the nlsat tactic on the pure-real part (fails fast when UFs or
        ints occur), then fresh default solvers with other random seeds.  Any definite answer wins."""
        asserts = list(self.solver.assertions())
        attempts = [("nlsat", None), ("seed", 7), ("seed", 23), ("seed", 101)]
        for kind, seed in attempts:
            t = time.time()
            try:
                if kind == "nlsat":
                    s = z3.Tactic("qfnra-nlsat").solver()
                else:
                    s = z3.Solver()
                    s.set("random_seed", seed)
                    s.set("smt.arith.random_initial_value", True)
                s.set("timeout", int(self.prove_timeout * slack()))
                try:
                    s.set("rlimit", int(self.prove_timeout) * self.rlimit_per_ms)
                except z3.Z3Exception:
                    pass
                s.add(*asserts)
                s.add(goal)
                r = hard_check(s, self.prove_timeout)
                m = s.model() if r == z3.sat else None
            except z3.Z3Exception:
                r, m = z3.unknown, None
            self.tsolve += time.time() - t
            self.nq[f"{kind}:{r}"] += 1
            if r != z3.unknown:
                return r, m
        # last resort, for counterexamples only: pin the declared inputs to sampled values (the query then
        # has few free variables left: draws, roots) -- a `sat` under pins is a genuine model of the goal
        import random as _random

        rnd = _random.Random(self.seed + 97)
        for trial in range(6):
            pins = []
            for name, c in self.symbols.items():
                kind, lo, hi = self.ranges.get(name, ["R", None, None])
                if kind == "B":
                    pins.append(c == z3.BoolVal(rnd.random() < 0.5))
                elif kind == "I":
                    lo_ = 0 if lo is None else lo
                    hi_ = lo_ + 6 if hi is None else hi
                    pins.append(c == rnd.randint(lo_, hi_))
                else:
                    if lo is not None and hi is not None:
                        v = rnd.uniform(lo, hi)
                    elif lo is not None:
                        v = lo + abs(rnd.gauss(0, 1)) + 0.01
                    elif hi is not None:
                        v = hi - abs(rnd.gauss(0, 1)) - 0.01
                    else:
                        v = rnd.gauss(0, 2)
                    pins.append(c == z3.RealVal(Fraction(round(v, 3)).limit_denominator(1000)))
            t = time.time()
            try:
                s = z3.Solver()
                s.set("timeout", int(max(2000, self.prove_timeout // 3) * slack()))
                s.set("rlimit", max(2000, self.prove_timeout // 3) * self.rlimit_per_ms)
                s.add(*asserts)
                s.add(goal)
                s.add(*pins)
                r = hard_check(s, max(2000, self.prove_timeout // 3))
                m = s.model() if r == z3.sat else None
            except z3.Z3Exception:
                r, m = z3.unknown, None
            self.tsolve += time.time() - t
            self.nq[f"pinned:{r}"] += 1
            if r == z3.sat:
                return r, m
        return z3.unknown, None

    def _witnesses_budgeted(self, goal, m, evals):
        """Diverse, realistic witnesses are expensive (every pin is a solver call): the scenario process spends
        at most `witness_budget_s` on them in total; later failures carry the solver's raw model only."""
        if _WITNESS_SPENT[0] > self.witness_budget_s:
            w = self.witness(m, evals)
            w["realized"] = False
            return [w]
        t = time.time()
        try:
            return self._witnesses(goal, m, evals)
        finally:
            _WITNESS_SPENT[0] += time.time() - t

    def _witnesses(self, goal, m, evals, k=5):
        """Up to k diverse models of PC & goal, each made realistic where possible."""
        out = []
        disc = [c for c in self.symbols.values() if c.sort().kind() in (z3.Z3_BOOL_SORT, z3.Z3_INT_SORT)]
        reals = [c for c in self.symbols.values() if c.sort().kind() == z3.Z3_REAL_SORT]
        for d in self.draws:
            for x in np.asarray(d["value"], dtype=object).ravel().tolist():
                if isinstance(x, (SR, SI)) and z3.is_const(x.e):
                    (disc if isinstance(x, SI) else reals).append(x.e)
        blocks = []
        cur = m
        for it in range(k):
            m2 = self._realize(z3.And(goal, *blocks) if blocks else goal, cur)
            out.append(self.witness(m2 or cur, evals))
            out[-1]["realized"] = m2 is not None
            try:
                if disc:
                    blocks.append(z3.Or(*[c != cur.eval(c, model_completion=True) for c in disc]))
                elif reals:
                    blocks.append(z3.And(*[c != cur.eval(c, model_completion=True) for c in reals[:12]]))
                else:
                    break
            except z3.Z3Exception:
                break
            r, cur = self._check((goal, *blocks), self.prove_timeout)
            if r != z3.sat or cur is None:
                break
        return out

    def fail(self, label, info=None, evals=None):
        """The current (feasible) path itself is a counterexample candidate."""
        m = None
        self.model = None
        try:
            m = self._get_model()
        except PathAbort:
            return
        if m is None:
            self.oblig.append((label, "unknown"))
            self.inconclusive.append(label)
            return
        self.oblig.append((label, "sat"))
        ws = self._witnesses_budgeted(z3.BoolVal(True), m, evals)
        self.failures.append({"label": label, "witness": ws[0], "alts": ws[1:], "info": info, "prefix_len": len(self.prefix)})

    def _realize(self, goal, m):
        """Make a model realistic: uninterpreted exp/log/tanh/pow/sin/cos values are pinned, one
        application at a time (creation order = inner first), to the true function value at the
        model's argument (rel. 1e-9).  Returns a model of PC & goal & pins, or None."""
        apps = [(k, v) for k, v in self.apps.items() if k[0] in ("exp", "log", "tanh", "pow")]
        trigs = list(self.trig.values())
        if not apps and not trigs and not any(k[0] == "expm" for k in self.apps):
            return m
        self.solver.push()
        try:
            self.solver.add(goal)
            self.solver.set("timeout", int(self.prove_timeout * slack()))
            self.solver.set("rlimit", int(self.prove_timeout) * self.rlimit_per_ms)
            t_end = time.time() + 3.0 * slack() * self.prove_timeout / 1000.0  # the whole pinning pass is budgeted
            cur = m
            pinned = 0

            def val(t):
                v = cur.eval(t, model_completion=True)
                if z3.is_algebraic_value(v):
                    v = v.approx(20)
                if z3.is_rational_value(v):
                    return Fraction(v.numerator_as_long(), v.denominator_as_long())
                return None

            def box(t, true):
                if true != true:
                    return None
                if true in (float("inf"), float("-inf")):
                    return t > z3.RealVal(Fraction(1e308)) if true > 0 else t < z3.RealVal(Fraction(-1e308))
                f = Fraction(true)
                eps = abs(f) * Fraction(1, 10**9) + Fraction(1, 10**300)
                return z3.And(t >= z3.RealVal(f - eps), t <= z3.RealVal(f + eps))

            todo = []
            for k, (t, args) in apps:
                todo.append((k[0], t, args))
            for c_, s_, a_ in trigs:
                todo.append(("trig", (c_.e, s_.e), (a_,)))
            for k, v in self.apps.items():
                if k[0] == "expm":
                    todo.append(("expm", v[0], v[1]))
            for kind, t, args in todo:
                vs = [val(a) for a in args]
                if any(v is None for v in vs):
                    continue
                try:
                    fv = [float(v) for v in vs]
                    if kind == "exp":
                        true = math.exp(fv[0]) if fv[0] < 709.7 else float("inf")
                    elif kind == "log":
                        if fv[0] <= 0:
                            continue
                        true = math.log(fv[0])
                    elif kind == "tanh":
                        true = math.tanh(fv[0])
                    elif kind == "pow":
                        if fv[0] <= 0:
                            continue
                        true = fv[0] ** fv[1]
                    else:
                        true = 0.0
                except (OverflowError, ValueError):
                    continue
                cons = [a == z3.RealVal(v) for a, v in zip(args, vs)]
                if kind == "expm":
                    from scipy.linalg import expm as _expm

                    tm = _expm(np.array(fv, dtype=float).reshape(3, 3))
                    for i in range(3):
                        for j in range(3):
                            cons.append(box(lift(t[i, j]), float(tm[i, j])))
                elif kind == "trig":
                    bc, bs = box(t[0], math.cos(fv[0])), box(t[1], math.sin(fv[0]))
                    cons += [bc, bs]
                else:
                    b = box(t, true)
                    if b is None:
                        continue
                    cons.append(b)
                if time.time() > t_end:
                    return None
                self.solver.push()
                self.solver.add(*cons)
                r = hard_check(self.solver, self.prove_timeout)
                if r == z3.sat:
                    cur = self.solver.model()
                    pinned += 1
                    # keep the pin (do not pop): later pins build on it
                else:
                    self.solver.pop()
                    # try only the box on the value with the argument left free but near
                    return None
            return cur
        except z3.Z3Exception:
            return None
        finally:
            # unwind every push made here
            while self.solver.num_scopes() > self._base_scopes():
                self.solver.pop()

    def _base_scopes(self):
        return 0

    def validation_witness(self):
        """A concrete input on which this (clean) path was taken, uninterpreted functions pinned to their true
        values where the pinning pass succeeds: replayed on the real code, every obligation proved here must hold
        there too -- the encoding checked against what it encodes."""
        m = None
        # a witness in general position: the solver's favourite models sit on boundaries (a draw of exactly 0, two
        # equal coordinates), where exact reals and floats may legitimately take different branches
        reals = [c for c in self.symbols.values() if c.sort().kind() == z3.Z3_REAL_SORT]
        for d in self.draws:
            for x in np.asarray(d["value"], dtype=object).ravel().tolist():
                if isinstance(x, SR) and z3.is_const(x.e):
                    reals.append(x.e)
        reals = reals[:40]
        m = None
        if reals and _VALIDATION_SPENT[0] <= 6.0:
            # one query (hard wall-clock limit) for a model off the boundaries ...
            t0 = time.time()
            gen = [z3.And(c != 0, c != 1, c != -1, z3.Or(c > z3.RealVal("1/64"), c < z3.RealVal("-1/64"))) for c in reals]
            gen += [reals[i] != reals[j] for i in range(min(len(reals), 10)) for j in range(i)]
            r, mg = self._check(tuple(gen), min(self.fork_timeout, 1500))
            _VALIDATION_SPENT[0] += time.time() - t0
            if r == z3.sat and mg is not None:
                m = mg
        if m is None:
            m = self.model  # ... else the model the path was steered with, if that one happens to be generic
        if m is None:
            return None
        vals = []
        for c in reals:
            v = m.eval(c, model_completion=True)
            if not z3.is_rational_value(v):
                return None
            vals.append(Fraction(v.numerator_as_long(), v.denominator_as_long()))
        if any(v in (0, 1, -1) or abs(v) < Fraction(1, 64) for v in vals) or len(set(vals[:10])) < len(vals[:10]):
            return None
        t = time.time()
        m2 = None
        if _VALIDATION_SPENT[0] <= 6.0:  # seconds per scenario process for pinning validation witnesses
            saved = self.prove_timeout
            self.prove_timeout = min(saved, 1500)
            try:
                m2 = self._realize(z3.BoolVal(True), m)
            finally:
                self.prove_timeout = saved
                _VALIDATION_SPENT[0] += time.time() - t
        w = self.witness(m2 or m)
        w["realized"] = m2 is not None
        w["labels"] = sorted({l for l, _ in self.oblig})
        return w

    def witness(self, m, evals=None):
        w = {}
        for name, c in self.symbols.items():
            w[name] = _model_value(m, c)
        dr = []
        for d in self.draws:
            dr.append({"kind": d["kind"], "value": _model_struct(m, d["value"]), "site": d.get("site")})
        out = {"symbols": w, "draws": dr, "ranges": dict(self.ranges)}
        for k, (c_, s_, a_) in self.trig.items():
            out.setdefault("trig", []).append(
                {"arg": _model_value(m, a_), "cos": _model_value(m, c_.e), "sin": _model_value(m, s_.e)}
            )
        ev = dict(self.evals)
        ev.update(evals or {})
        if ev:
            out["evals"] = {k: _model_struct(m, v) for k, v in ev.items()}
        return out

    # ---- uninterpreted functions with creation-time axioms (true facts only)
    def app(self, fname, *args):
        key = (fname,) + tuple(a.get_id() for a in args)
        t = self.apps.get(key)
        if t is not None:
            return t[0]
        f = z3.Function("uf_" + fname, *([z3.RealSort()] * (len(args) + 1)))
        t = f(*args)
        prev = [v for k, v in self.apps.items() if k[0] == fname]
        self.apps[key] = (t, args)
        ax = _AXIOMS.get(fname)
        if ax and fname not in getattr(self, "no_axioms", ()):
            for c in ax(self, t, args, prev):
                self._add(c)
        return t


def _model_value(m, c):
    v = m.eval(c, model_completion=True)
    if z3.is_int_value(v):
        return v.as_long()
    if z3.is_rational_value(v):
        return str(Fraction(v.numerator_as_long(), v.denominator_as_long()))
    if z3.is_algebraic_value(v):
        a = v.approx(30)
        return str(Fraction(a.numerator_as_long(), a.denominator_as_long()))
    if z3.is_true(v):
        return True
    if z3.is_false(v):
        return False
    return str(v)


def _model_struct(m, v):
    if isinstance(v, (SR, SI, SB)):
        return _model_value(m, v.e)
    if isinstance(v, z3.ExprRef):
        return _model_value(m, v)
    if isinstance(v, np.ndarray):
        return [_model_struct(m, x) for x in v.tolist()] if v.ndim else _model_struct(m, v.item())
    if isinstance(v, (list, tuple)):
        return [_model_struct(m, x) for x in v]
    if isinstance(v, dict):
        return {k: _model_struct(m, x) for k, x in v.items()}
    if isinstance(v, (np.integer,)):
        return int(v)
    if isinstance(v, (np.floating,)):
        return float(v)
    if isinstance(v, np.bool_):
        return bool(v)
    return v


def wfloat(x):
    """Witness value -> float."""
    if isinstance(x, str):
        return float(Fraction(x))
    return float(x)


def E() -> Engine:
    e = Engine.cur
    if e is None:
        raise RuntimeError("no active symbolic engine")
    return e


# --------------------------------------------------------------------------- axioms
def _ax_exp(eng, t, args, prev):
    (a,) = args
    out = [t > 0, t >= 1 + a, z3.Implies(a < 0, t < 1), z3.Implies(a > 0, t > 1), z3.Implies(a == 0, t == 1)]
    out += _const_box(a, t, math.exp)
    l2 = Fraction(-math.log(2))
    hv = Fraction(math.exp(-math.log(2)))
    out.append(z3.Implies(a == z3.RealVal(l2), z3.And(t >= z3.RealVal(hv - Fraction(1, 10**13)), t <= z3.RealVal(hv + Fraction(1, 10**13)))))
    out.append(z3.Implies(a <= -27, t <= z3.RealVal(Fraction(2, 10**12))))
    # exp(ln DBL_MAX) > 1e308 and exp(-746) < 1e-323 (true facts about the real exponential)
    out.append(z3.Implies(a > z3.RealVal(EXPMAX), t > z3.RealVal(Fraction(10) ** 308)))
    out.append(z3.Implies(a < -746, t < z3.RealVal(Fraction(1, 10**323))))
    for pt, (pa,) in prev:
        out.append(z3.Implies(a < pa, t < pt))
        out.append(z3.Implies(pa < a, pt < t))
        out.append(z3.Implies(a == -pa, t * pt == 1))
    return out


def _ax_log(eng, t, args, prev):
    (a,) = args
    out = [z3.Implies(a == 1, t == 0), z3.Implies(a > 1, t > 0), z3.Implies(z3.And(a > 0, a < 1), t < 0)]
    for pt, (pa,) in prev:
        out.append(z3.Implies(z3.And(a > 0, pa > 0, a < pa), t < pt))
        out.append(z3.Implies(z3.And(a > 0, pa > 0, pa < a), pt < t))
    # exp(log a) = a for a > 0
    et = eng.app("exp", t)
    out.append(z3.Implies(a > 0, et == a))
    return out


def _const_box(a, t, fn, rel=Fraction(1, 10**13)):
    """For a constant argument: the true value within a relative 1e-13 (libm is far tighter)."""
    s = z3.simplify(a)
    if not z3.is_rational_value(s):
        return []
    try:
        v = fn(float(Fraction(s.numerator_as_long(), s.denominator_as_long())))
    except (OverflowError, ValueError):
        return []
    if v != v or v in (float("inf"), float("-inf")):
        return []
    f = Fraction(v)
    eps = abs(f) * rel + Fraction(1, 10**320)
    return [t >= z3.RealVal(f - eps), t <= z3.RealVal(f + eps)]


def _ax_tanh(eng, t, args, prev):
    (a,) = args
    c0 = Fraction(math.atanh(0.5))
    half = Fraction(math.tanh(math.atanh(0.5)))
    out = [z3.Implies(a == z3.RealVal(c0), z3.And(t >= z3.RealVal(half - Fraction(1, 10**13)), t <= z3.RealVal(half + Fraction(1, 10**13))))]
    out += _const_box(a, t, math.tanh) + [z3.Implies(a >= 20, t >= 1 - z3.RealVal(Fraction(1, 10**15))), z3.Implies(a <= -20, t <= -1 + z3.RealVal(Fraction(1, 10**15)))]
    out += [t > -1, t < 1, z3.Implies(a > 0, z3.And(t > 0, t < a)), z3.Implies(a < 0, z3.And(t < 0, t > a)), z3.Implies(a == 0, t == 0)]
    for pt, (pa,) in prev:
        out.append(z3.Implies(a < pa, t < pt))
        out.append(z3.Implies(pa < a, pt < t))
        out.append(z3.Implies(a == -pa, t == -pt))
    return out


def _ax_pow(eng, t, args, prev):
    b, x = args
    out = [
        z3.Implies(b > 0, t > 0),
        z3.Implies(z3.And(b > 0, x == 0), t == 1),
        z3.Implies(b == 1, t == 1),
        z3.Implies(z3.And(b > 0, b <= 1, x >= 0), t <= 1),
        z3.Implies(z3.And(b >= 1, x >= 0), t >= 1),
        z3.Implies(z3.And(b > 0, x == 1), t == b),
    ]
    return out


_AXIOMS = {"exp": _ax_exp, "log": _ax_log, "tanh": _ax_tanh, "pow": _ax_pow}


# --------------------------------------------------------------------------- values
def lift(x):
    """Python/numpy/proxy number -> z3 Real term."""
    if isinstance(x, SR):
        return x.e
    if isinstance(x, SI):
        return z3.ToReal(x.e)
    if isinstance(x, SB):
        return z3.If(x.e, z3.RealVal(1), z3.RealVal(0))
    if isinstance(x, (bool, np.bool_)):
        return z3.RealVal(int(x))
    if isinstance(x, (int, np.integer)):
        return z3.RealVal(int(x))
    if isinstance(x, (float, np.floating)):
        f = float(x)
        if f != f or f in (float("inf"), float("-inf")):
            raise Unsupported(f"non-finite float {f} meets a symbolic value")
        return z3.RealVal(Fraction(f))
    if isinstance(x, Fraction):
        return z3.RealVal(x)
    raise TypeError(type(x))


def ilift(x):
    if isinstance(x, SI):
        return x.e
    if isinstance(x, (int, np.integer)) and not isinstance(x, (bool, np.bool_)):
        return z3.IntVal(int(x))
    if isinstance(x, (bool, np.bool_)):
        return z3.IntVal(int(x))
    raise TypeError(type(x))


def sb(x):
    if isinstance(x, SB):
        return x.e
    if isinstance(x, z3.BoolRef):
        return x
    if isinstance(x, (bool, np.bool_)):
        return z3.BoolVal(bool(x))
    raise TypeError(f"not a boolean: {type(x)}")


def is_sym(x):
    return isinstance(x, (SR, SI, SB))


def _is_zero(o):
    return isinstance(o, (int, float, np.integer, np.floating)) and not isinstance(o, bool) and o == 0


def _is_inf(o):
    return isinstance(o, (float, np.floating)) and o in (float("inf"), float("-inf"))


def _is_nan(o):
    return isinstance(o, (float, np.floating)) and o != o


def _inf_times(inf, x):
    """IEEE: inf * x for a finite real x (fork on the sign of x)."""
    if bool(x > 0):
        return inf
    if bool(x < 0):
        return -inf
    return float("nan")


def _is_one(o):
    return isinstance(o, (int, float, np.integer, np.floating)) and not isinstance(o, bool) and o == 1


class SB:
    __slots__ = ("e",)

    def __init__(self, e):
        self.e = e

    def __bool__(self):
        e = z3.simplify(self.e)
        if z3.is_true(e):
            return True
        if z3.is_false(e):
            return False
        return E().decide(self.e)

    def __and__(self, o):
        try:
            return SB(z3.And(self.e, sb(o)))
        except TypeError:
            return NotImplemented

    __rand__ = __and__

    def __or__(self, o):
        try:
            return SB(z3.Or(self.e, sb(o)))
        except TypeError:
            return NotImplemented

    __ror__ = __or__

    def __xor__(self, o):
        return SB(z3.Xor(self.e, sb(o)))

    __rxor__ = __xor__

    def __invert__(self):
        return SB(z3.Not(self.e))

    def logical_not(self):
        return SB(z3.Not(self.e))

    def __eq__(self, o):
        try:
            return SB(self.e == sb(o))
        except TypeError:
            return NotImplemented

    def __ne__(self, o):
        try:
            return SB(self.e != sb(o))
        except TypeError:
            return NotImplemented

    __hash__ = None

    def _num(self):
        return SR(z3.If(self.e, z3.RealVal(1), z3.RealVal(0)))

    def __mul__(self, o):
        return self._num() * o

    __rmul__ = __mul__

    def __add__(self, o):
        return self._num() + o

    __radd__ = __add__

    def __repr__(self):
        return f"SB({_short(self.e)})"

    def __deepcopy__(self, memo):
        return self

    def __copy__(self):
        return self


def implies(a, b):
    return SB(z3.Implies(sb(a), sb(b)))


def sand(*xs):
    return SB(z3.And(*[sb(x) for x in xs])) if xs else SB(z3.BoolVal(True))


def sor(*xs):
    return SB(z3.Or(*[sb(x) for x in xs])) if xs else SB(z3.BoolVal(False))


def snot(x):
    return SB(z3.Not(sb(x)))


def ite(c, a, b):
    """If-merge (no fork)."""
    if isinstance(c, (bool, np.bool_)):
        return a if c else b
    if isinstance(a, SI) or isinstance(b, SI):
        if not isinstance(a, (SR, float, np.floating)) and not isinstance(b, (SR, float, np.floating)):
            return SI(z3.If(sb(c), ilift(a), ilift(b)))
    return SR(z3.If(sb(c), lift(a), lift(b)))


class SR:
    """Symbolic real (models a Python/numpy float as an exact real)."""

    __slots__ = ("e",)

    def __init__(self, e):
        self.e = e

    # arithmetic
    def __add__(self, o):
        if _is_zero(o):
            return self
        try:
            return SR(self.e + lift(o))
        except TypeError:
            return NotImplemented

    def __radd__(self, o):
        if _is_zero(o):
            return self
        try:
            return SR(lift(o) + self.e)
        except TypeError:
            return NotImplemented

    def __sub__(self, o):
        if _is_zero(o):
            return self
        try:
            return SR(self.e - lift(o))
        except TypeError:
            return NotImplemented

    def __rsub__(self, o):
        try:
            return SR(lift(o) - self.e)
        except TypeError:
            return NotImplemented

    def __mul__(self, o):
        if _is_one(o):
            return self
        if _is_zero(o):
            return 0.0
        if _is_inf(o):
            return _inf_times(o, self)
        try:
            return SR(self.e * lift(o))
        except TypeError:
            return NotImplemented

    def __rmul__(self, o):
        if _is_one(o):
            return self
        if _is_zero(o):
            return 0.0
        if _is_inf(o):
            return _inf_times(o, self)
        try:
            return SR(lift(o) * self.e)
        except TypeError:
            return NotImplemented

    def __truediv__(self, o):
        if _is_one(o):
            return self
        try:
            d = lift(o)
        except TypeError:
            return NotImplemented
        _note_div(d)
        return SR(self.e / d)

    def __rtruediv__(self, o):
        if _is_zero(o):
            _note_div(self.e)
            return 0.0
        try:
            n = lift(o)
        except TypeError:
            return NotImplemented
        _note_div(self.e)
        return SR(n / self.e)

    def __neg__(self):
        return SR(-self.e)

    def __pos__(self):
        return self

    def __abs__(self):
        return SR(z3.If(self.e >= 0, self.e, -self.e))

    def __pow__(self, n):
        if isinstance(n, SI):
            s = z3.simplify(n.e)
            if z3.is_int_value(s):
                n = s.as_long()
            else:
                n = E().value_of(n.e)
        if isinstance(n, (int, np.integer)) or (isinstance(n, (float, np.floating)) and float(n).is_integer()):
            n = int(n)
            if n >= 0:
                r = z3.RealVal(1)
                for _ in range(n):
                    r = r * self.e
                return SR(r)
            _note_div(self.e)
            return SR(1 / (self**(-n)).e)
        if isinstance(n, (float, np.floating)) and float(n) == 0.5:
            return self.sqrt()
        try:
            return SR(E().app("pow", self.e, lift(n)))
        except TypeError:
            return NotImplemented

    def __rpow__(self, b):
        try:
            return SR(E().app("pow", lift(b), self.e))
        except TypeError:
            return NotImplemented

    # comparisons
    def __lt__(self, o):
        if _is_inf(o):
            return True if o > 0 else False
        if _is_nan(o):
            return False
        try:
            return SB(self.e < lift(o))
        except TypeError:
            return NotImplemented

    def __le__(self, o):
        if _is_inf(o):
            return True if o > 0 else False
        if _is_nan(o):
            return False
        try:
            return SB(self.e <= lift(o))
        except TypeError:
            return NotImplemented

    def __gt__(self, o):
        if _is_inf(o):
            return False if o > 0 else True
        if _is_nan(o):
            return False
        try:
            return SB(self.e > lift(o))
        except TypeError:
            return NotImplemented

    def __ge__(self, o):
        if _is_inf(o):
            return False if o > 0 else True
        if _is_nan(o):
            return False
        try:
            return SB(self.e >= lift(o))
        except TypeError:
            return NotImplemented

    def __eq__(self, o):
        if _is_inf(o):
            return False if o > 0 else False
        if _is_nan(o):
            return False
        try:
            return SB(self.e == lift(o))
        except TypeError:
            return NotImplemented

    def __ne__(self, o):
        if _is_inf(o):
            return True if o > 0 else True
        if _is_nan(o):
            return True
        try:
            return SB(self.e != lift(o))
        except TypeError:
            return NotImplemented

    __hash__ = None

    # numpy object-dtype ufunc loops call same-named methods
    def exp(self):
        E().np_exp_args.append(self.e)
        return SR(E().app("exp", self.e))

    def log(self):
        E().safety.append(("log-arg-positive", self.e > 0))
        return SR(E().app("log", self.e))

    def tanh(self):
        return SR(E().app("tanh", self.e))

    def sqrt(self):
        s = z3.simplify(self.e)
        if z3.is_rational_value(s):
            f = float(Fraction(s.numerator_as_long(), s.denominator_as_long()))
            return math.sqrt(f)
        try:
            canon = z3.simplify(self.e, som=True, sort_sums=True, flat=True)
        except z3.Z3Exception:
            canon = s
        sx = canon.sexpr()  # (the C-level printer; z3's Python pretty-printer is far too slow on large terms)
        key = ("sqrt", sx if len(sx) < 20000 else s.get_id())
        eng = E()
        r = eng.apps.get(key)
        if r is None:
            rv = eng.fresh("sqrt")
            eng.axiom(z3.And(rv.e >= 0, rv.e * rv.e == self.e))
            eng.safety.append(("sqrt-arg-nonneg", self.e >= 0))
            eng.apps[key] = (rv, (self.e,))
            r = (rv,)
        return r[0]

    def cos(self):
        return _trig(self)[0]

    def sin(self):
        return _trig(self)[1]

    def conjugate(self):
        return self

    def sign(self):
        return SR(z3.If(self.e > 0, z3.RealVal(1), z3.If(self.e < 0, z3.RealVal(-1), z3.RealVal(0))))

    def floor(self):
        return SI(z3.ToInt(self.e))

    def ceil(self):
        return SI(-z3.ToInt(-self.e))

    def __floor__(self):
        return self.floor()

    def __ceil__(self):
        return self.ceil()

    def __trunc__(self):
        return SI(z3.If(self.e >= 0, z3.ToInt(self.e), -z3.ToInt(-self.e)))

    def __round__(self, ndigits=None):
        """Round half to even on the REAL value (a float's decimal rounding differs only at representation
        level, never by more than one unit in the last kept digit)."""
        d = 0 if ndigits is None else int(ndigits)
        sc = z3.RealVal(Fraction(10) ** d)
        y = self.e * sc
        fl = z3.ToInt(y)
        fr = y - z3.ToReal(fl)
        half = z3.RealVal(Fraction(1, 2))
        r = z3.If(fr < half, fl, z3.If(fr > half, fl + 1, z3.If(fl % 2 == 0, fl, fl + 1)))
        return SI(r) if ndigits is None else SR(z3.ToReal(r) / sc)

    def __deepcopy__(self, memo):
        return self

    def __copy__(self):
        return self

    def __bool__(self):
        return bool(SB(self.e != 0))

    def __float__(self):
        s = z3.simplify(self.e)
        if z3.is_rational_value(s):
            return float(Fraction(s.numerator_as_long(), s.denominator_as_long()))
        raise Unsupported("float() on a symbolic real")

    def __repr__(self):
        return f"SR({_short(self.e)})"

    def __format__(self, spec):
        return repr(self)


def _note_div(d):
    s = z3.simplify(d)
    if z3.is_rational_value(s):
        if s.numerator_as_long() == 0:
            raise ZeroDivisionError("symbolic division by constant zero")
        return
    E().safety.append(("div-nonzero", d != 0))


def _trig(x):
    eng = E()
    key = x.e.get_id()
    if key not in eng.trig:
        c = eng.fresh("cos")
        s = eng.fresh("sin")
        eng.axiom(c.e * c.e + s.e * s.e == 1)
        a = x.e
        eng.axiom(z3.Implies(a == 0, z3.And(c.e == 1, s.e == 0)))
        if ("PI",) in eng.apps:
            P = eng.apps[("PI",)][0].e
            eng.axiom(z3.Implies(z3.And(a > 0, a < P), s.e > 0))
            eng.axiom(z3.Implies(z3.And(a > P, a < 2 * P), s.e < 0))
            for pc, ps, pa in eng.trig.values():
                eng.axiom(z3.Implies(z3.Or(a == pa + P, a == pa - P), z3.And(c.e == -pc.e, s.e == -ps.e)))
                eng.axiom(z3.Implies(z3.Or(a == -pa, a == 2 * P - pa), z3.And(c.e == pc.e, s.e == -ps.e)))
                eng.axiom(z3.Implies(z3.Or(a == pa + 2 * P, a == pa - 2 * P), z3.And(c.e == pc.e, s.e == ps.e)))
        for pc, ps, pa in eng.trig.values():
            eng.axiom(z3.Implies(a == pa, z3.And(c.e == pc.e, s.e == ps.e)))
        eng.trig[key] = (c, s, x.e)
    return eng.trig[key][:2]


def _pymod(a, b):
    # Python: result has the sign of b.  z3 mod: 0 <= r < |b|
    return z3.If(b > 0, a % b, -((-a) % (-b)))


class SI:
    """Symbolic Python int."""

    __slots__ = ("e",)

    def __init__(self, e):
        self.e = e

    def _bin(self, o, fi, fr, swap=False):
        if isinstance(o, SI) or (isinstance(o, (int, np.integer)) and not isinstance(o, (bool, np.bool_))) or isinstance(o, (bool, np.bool_)):
            a, b = self.e, ilift(o)
            if swap:
                a, b = b, a
            return SI(fi(a, b))
        try:
            a, b = z3.ToReal(self.e), lift(o)
        except TypeError:
            return NotImplemented
        if swap:
            a, b = b, a
        return SR(fr(a, b))

    def __add__(self, o):
        if _is_zero(o) and not isinstance(o, (float, np.floating)):
            return self
        return self._bin(o, operator_add, operator_add)

    def __radd__(self, o):
        if _is_zero(o) and not isinstance(o, (float, np.floating)):
            return self
        return self._bin(o, operator_add, operator_add, True)

    def __sub__(self, o):
        return self._bin(o, operator_sub, operator_sub)

    def __rsub__(self, o):
        return self._bin(o, operator_sub, operator_sub, True)

    def __mul__(self, o):
        return self._bin(o, operator_mul, operator_mul)

    def __rmul__(self, o):
        return self._bin(o, operator_mul, operator_mul, True)

    def __truediv__(self, o):
        try:
            d = lift(o)
        except TypeError:
            return NotImplemented
        _note_div(d)
        return SR(z3.ToReal(self.e) / d)

    def __rtruediv__(self, o):
        try:
            n = lift(o)
        except TypeError:
            return NotImplemented
        _note_div(z3.ToReal(self.e))
        return SR(n / z3.ToReal(self.e))

    def __floordiv__(self, o):
        b = ilift(o)
        return SI(z3.If(b > 0, self.e / b, (-self.e) / (-b)))

    def __rfloordiv__(self, o):
        a = ilift(o)
        return SI(z3.If(self.e > 0, a / self.e, (-a) / (-self.e)))

    def __mod__(self, o):
        try:
            return SI(_pymod(self.e, ilift(o)))
        except TypeError:
            return NotImplemented

    def __rmod__(self, o):
        try:
            return SI(_pymod(ilift(o), self.e))
        except TypeError:
            return NotImplemented

    # bit operations with constants that are arithmetic in disguise (two's-complement semantics of Python ints)
    def __and__(self, o):
        if isinstance(o, (int, np.integer)) and not isinstance(o, bool) and int(o) >= 0 and (int(o) + 1) & int(o) == 0:
            return SI(_pymod(self.e, z3.IntVal(int(o) + 1)))
        raise Unsupported("bitwise and of a symbolic integer with a non-mask operand")

    __rand__ = __and__

    def __rshift__(self, k):
        if isinstance(k, (int, np.integer)) and int(k) >= 0:
            return self // (1 << int(k))
        raise Unsupported("shift by a symbolic amount")

    def __lshift__(self, k):
        if isinstance(k, (int, np.integer)) and int(k) >= 0:
            return SI(self.e * z3.IntVal(1 << int(k)))
        raise Unsupported("shift by a symbolic amount")

    def __neg__(self):
        return SI(-self.e)

    def __pos__(self):
        return self

    def __abs__(self):
        return SI(z3.If(self.e >= 0, self.e, -self.e))

    def __pow__(self, n):
        return SR(z3.ToReal(self.e)) ** n

    def __rpow__(self, b):
        n = E().value_of(self.e)
        return b**n

    def _cmp(self, o, op):
        if isinstance(o, SI) or (isinstance(o, (int, np.integer)) and not isinstance(o, (bool, np.bool_))):
            return SB(op(self.e, ilift(o)))
        try:
            return SB(op(z3.ToReal(self.e), lift(o)))
        except TypeError:
            return NotImplemented

    def __lt__(self, o):
        return self._cmp(o, operator_lt)

    def __le__(self, o):
        return self._cmp(o, operator_le)

    def __gt__(self, o):
        return self._cmp(o, operator_gt)

    def __ge__(self, o):
        return self._cmp(o, operator_ge)

    def __eq__(self, o):
        if o is None:
            return False
        return self._cmp(o, operator_eq)

    def __ne__(self, o):
        if o is None:
            return True
        return self._cmp(o, operator_ne)

    def __bool__(self):
        return bool(SB(self.e != 0))

    def __index__(self):
        return E().value_of(self.e)

    __int__ = __index__

    def __float__(self):
        return float(E().value_of(self.e))

    def __hash__(self):
        return hash(self.__index__())

    def __deepcopy__(self, memo):
        return self

    def __copy__(self):
        return self

    def conjugate(self):
        return self

    def __repr__(self):
        return f"SI({_short(self.e)})"

    def __format__(self, spec):
        return repr(self)


import operator as _op

operator_add, operator_sub, operator_mul = _op.add, _op.sub, _op.mul
operator_lt, operator_le, operator_gt, operator_ge, operator_eq, operator_ne = _op.lt, _op.le, _op.gt, _op.ge, _op.eq, _op.ne


# --------------------------------------------------------------------------- helpers on terms
def same_term(a, b):
    """Bit-for-bit equality in the model: identical z3 terms / equal concrete values."""
    sa, sb_ = is_sym(a), is_sym(b)
    if sa and sb_:
        return type(a) is type(b) and z3.eq(a.e, b.e)
    if sa or sb_:
        x, y = (a, b) if sa else (b, a)
        s = z3.simplify(x.e)
        if z3.is_rational_value(s) or z3.is_int_value(s):
            try:
                return Fraction(s.numerator_as_long(), s.denominator_as_long()) == Fraction(y) if z3.is_rational_value(s) else s.as_long() == y
            except (TypeError, ValueError):
                return False
        return False
    try:
        return bool(a == b) or (a != a and b != b)
    except Exception:
        return False


def same_array(a, b):
    a = np.asarray(a)
    b = np.asarray(b)
    if a.shape != b.shape:
        return False
    if a.dtype != object and b.dtype != object:
        return bool(np.array_equal(a, b, equal_nan=(a.dtype.kind == "f" and b.dtype.kind == "f")))
    return all(same_term(x, y) for x, y in zip(a.ravel().tolist(), b.ravel().tolist()))


def symarr(name, shape, declare=True):
    a = np.empty(shape, dtype=object)
    for idx in np.ndindex(*a.shape):
        n = name + "".join(map(str, idx))
        c = z3.Real(n)
        if declare:
            E().symbols[n] = c
            E().ranges[n] = ["R", None, None]
        a[idx] = SR(c)
    return a


def oarr(a):
    a = np.asarray(a)
    return a.astype(object) if a.dtype.kind == "f" else a


def all_eq(a, b):
    """SB: elementwise equality of two arrays of numbers (real equality, not term identity)."""
    a = np.asarray(a, dtype=object)
    b = np.asarray(b, dtype=object)
    if a.shape != b.shape:
        return SB(z3.BoolVal(False))
    cs = []
    for x, y in zip(a.ravel().tolist(), b.ravel().tolist()):
        if is_sym(x) or is_sym(y):
            cs.append(lift(x) == lift(y))
        elif x != y:
            return SB(z3.BoolVal(False))
    return SB(z3.And(*cs)) if cs else SB(z3.BoolVal(True))


# --------------------------------------------------------------------------- exploration
class Result:
    def __init__(self):
        self.paths = 0
        self.aborted = 0
        self.bound_hits = []
        self.unsupported = []
        self.errors = []
        self.nq = Counter()
        self.tsolve = 0.0
        self.oblig = Counter()
        self.failures = []
        self.validations = []
        self.inconclusive = []
        self.reached = Counter()
        self.returns = []
        self.wall = 0.0
        self.functions = set()

    def merge_path(self, p):
        self.paths += 1
        self.nq.update(p["nq"])
        self.tsolve += p["tsolve"]
        if p["status"] == "aborted":
            self.aborted += 1
        elif p["status"] == "bound":
            self.bound_hits.append(p["detail"])
        elif p["status"] == "unsupported":
            self.unsupported.append(p["detail"])
        elif p["status"] == "error":
            self.errors.append(p["detail"])
        for lab, st in p["oblig"]:
            self.oblig[(lab, st)] += 1
        self.failures.extend(p["failures"])
        if p.get("validation") is not None:
            self.validations.append(p["validation"])
        self.inconclusive.extend(p["inconclusive"])
        for r in p["reached"]:
            self.reached[r] += 1
        if p.get("ret") is not None:
            self.returns.append(p["ret"])
        self.functions.update(p.get("functions", ()))

    @property
    def ok(self):
        return not (self.failures or self.inconclusive or self.bound_hits or self.unsupported or self.errors)

    def summary(self):
        return {
            "paths": self.paths,
            "aborted": self.aborted,
            "queries": dict(self.nq),
            "solver_time_s": round(self.tsolve, 3),
            "obligations": {f"{k[0]}:{k[1]}": v for k, v in sorted(self.oblig.items())},
            "failures": len(self.failures),
            "inconclusive": len(self.inconclusive),
            "bound_hits": self.bound_hits[:5],
            "unsupported": self.unsupported[:5],
            "errors": self.errors[:5],
            "reached": dict(self.reached),
            "wall_s": round(self.wall, 2),
        }


def _short(e):
    """Bounded text for a term: z3's Python pretty-printer needs minutes on the large terms met here."""
    try:
        if z3.is_const(e) or z3.is_rational_value(e) or z3.is_int_value(e) or (e.num_args() <= 3 and all(z3.is_const(a) or z3.is_rational_value(a) for a in e.children())):
            s = str(e)
            return s if len(s) < 120 else s[:117] + "..."
        return f"<{e.decl().name()}-term #{e.get_id()}>"
    except Exception:  # noqa: BLE001
        return "<term>"


# Solver budgets are wall-clock (z3's resource limit does not bind inside its nonlinear engine), so a loaded
# machine would turn decided obligations into `unknown`.  Budgets are therefore stretched by the load factor:
# 1 on an idle machine, up to 4 when more processes are runnable than there are cores.
def hard_check(solver, nominal_ms):
    """solver.check() under a HARD wall-clock limit: z3's own timeout (and its resource limit) are not honoured
    everywhere inside the nonlinear engine; a timer thread interrupts the context instead (the check then answers
    `unknown`, reason "interrupted")."""
    import threading

    limit = nominal_ms / 1000.0 * slack() * 1.5 + 1.0
    fired = [False]

    def fire():
        fired[0] = True
        z3.main_ctx().interrupt()

    t = threading.Timer(limit, fire)
    t.daemon = True
    t.start()
    try:
        return solver.check()
    except z3.Z3Exception:
        if fired[0]:
            return z3.unknown
        raise
    finally:
        t.cancel()


_NCPU = os.cpu_count() or 1
_SLACK_ENV = os.environ.get("QVERIF_TIMEOUT_SLACK")


_SPEED = [None]


def _speed_factor():
    """How much slower than the reference machine this process runs right now (CPU contention that the load average of
    a virtual machine does not show): a fixed 40 ms benchmark, measured once per process."""
    if _SPEED[0] is None:
        t = time.perf_counter()
        acc = 0
        for i in range(300000):
            acc += i * i % 7
        x, y = z3.Reals("bench_x bench_y")
        sv = z3.Solver()
        sv.add(x * x + y * y == 25, x * y == 12, x > 0, y > x)
        sv.check()
        _SPEED[0] = max(1.0, min(6.0, (time.perf_counter() - t) / 0.045))
    return _SPEED[0]


def slack():
    if _SLACK_ENV:
        return float(_SLACK_ENV)
    return max(_load_factor(), _speed_factor())


def _load_factor():
    try:
        with open("/proc/loadavg") as fh:
            f = fh.read().split()
        load = max(float(f[0]), float(f[3].split("/")[0]) - 1.0)  # 1-minute average / runnable right now
    except (OSError, ValueError, IndexError):
        try:
            load = os.getloadavg()[0]
        except OSError:
            return 1.0
    return max(1.0, min(4.0, load / _NCPU))


_HARNESS = {}
_VALIDATION_TAKEN = [0]
_VALIDATION_SPENT = [0.0]
_WITNESS_SPENT = [0.0]  # seconds this (scenario) process has spent on witness generation
_TRACE_PREFIX = (os.environ.get("QVERIF_SRC") or "/repo/src").rstrip("/") + "/"
_seen_code = set()


def _install_monitor():
    import sys

    mon = getattr(sys, "monitoring", None)
    if mon is None:
        return
    tool = 3
    try:
        mon.use_tool_id(tool, "qverif")
    except ValueError:
        return

    def on_start(code, offset):
      try:
        fn = code.co_filename
        if _TRACE_PREFIX and fn.startswith(_TRACE_PREFIX):
            _seen_code.add(fn[len(_TRACE_PREFIX):] + ":" + code.co_qualname)
      except Exception:
        pass
      return getattr(mon, "DISABLE", None)

    mon.register_callback(tool, mon.events.PY_START, on_start)
    mon.set_events(tool, mon.events.PY_START)


def _run_one(fn, prefix, opts):
    eng = Engine(prefix, opts)
    Engine.cur = eng
    status, detail, ret = "ok", None, None
    try:
        ret = fn()
    except PathAbort:
        status = "aborted"
    except BoundHit as ex:
        status, detail = "bound", str(ex)
    except Unsupported as ex:
        status, detail = "unsupported", str(ex) + " @ " + _where()
    except RecursionError as ex:
        status, detail = "error", "RecursionError"
    except Exception as ex:  # a harness bug or an undeclared exception of the code under test
        origin = _quansino_origin()
        status, detail = "error", f"{type(ex).__name__}: {ex} @ {_where()}"
        if origin and not _engine_gap(ex):
            # raised inside quansino's own code on inputs the scenario considers legal: a candidate violation
            # ("completes without raising"), confirmed -- like every candidate -- by a replay on the real code
            try:
                n0 = len(eng.failures)
                eng.fail("completes-without-raising", info=f"{type(ex).__name__} raised in {origin}")
                if len(eng.failures) > n0:
                    status, detail = "ok", None
            except BaseException:  # noqa: BLE001
                pass
    vw = None
    try:
        if status == "ok" and not eng.failures and not eng.inconclusive and eng.oblig and opts.get("validate_paths") and _VALIDATION_TAKEN[0] < int(opts.get("validate_paths")):
            vw = eng.validation_witness()
            if vw is not None:
                _VALIDATION_TAKEN[0] += 1
    except (PathAbort, BoundHit, Unsupported, z3.Z3Exception):
        vw = None
    finally:
        Engine.cur = None
    return {
        "validation": vw,
        "status": status,
        "detail": detail,
        "ret": ret,
        "nq": dict(eng.nq),
        "tsolve": eng.tsolve,
        "oblig": eng.oblig,
        "failures": eng.failures,
        "inconclusive": eng.inconclusive,
        "reached": sorted(eng.reached),
        "work": eng.work,
    }


def _quansino_origin():
    """file:line:function of the innermost traceback frame if that frame is quansino source (the code under test)."""
    tb = traceback.extract_tb(__import__("sys").exc_info()[2])
    if not tb:
        return None
    fr = tb[-1]
    fn = fr.filename.replace("\\", "/")
    if "/quansino/" in fn and "/qverif/" not in fn:
        return f"{fn.split('/quansino/', 1)[1]}:{fr.lineno}:{fr.name}"
    return None


def _engine_gap(ex):
    """Exceptions that come from the proxies meeting a numpy/C routine without a symbolic counterpart."""
    msg = str(ex)
    return isinstance(ex, (Unsupported, NotImplementedError)) or (isinstance(ex, TypeError) and any(t in msg for t in ("SR", "SI", "SB", "ufunc", "object arrays", "dtype('O')")))


def _where():
    tb = traceback.extract_tb(__import__("sys").exc_info()[2])
    frames = [f for f in tb if "/qverif/symx.py" not in f.filename]
    fr = frames[-1] if frames else tb[-1]
    return f"{os.path.basename(fr.filename)}:{fr.lineno}:{fr.name}"


def _task(key, prefix, opts, budget):
    fn = _HARNESS[key]
    stack = [prefix]
    out = []
    t0 = time.time()
    while stack and len(out) < budget and time.time() - t0 < 20:
        p = _run_one(fn, stack.pop(), opts)
        stack.extend(p.pop("work"))
        out.append(p)
    return out, stack, sorted(_seen_code)


_PEAK_SLACK = [1.0]


def peak_slack():
    _PEAK_SLACK[0] = max(_PEAK_SLACK[0], slack())
    return _PEAK_SLACK[0]


def explore(fn, opts=None, workers=None, max_paths=200000, deadline_s=None, progress=None):
    """Explore all feasible paths of fn(); obligations are proved inside fn via E().prove."""
    opts = dict(opts or {})
    res = Result()
    t0 = time.time()
    workers = workers or int(os.environ.get("QVERIF_WORKERS", "0")) or min(16, os.cpu_count() or 1)
    key = id(fn)
    _HARNESS[key] = fn
    if workers <= 1:
        _install_monitor()
        stack = [[]]
        while stack:
            p = _run_one(fn, stack.pop(), opts)
            stack.extend(p.pop("work"))
            res.merge_path(p)
            if progress is not None:
                progress(res)
            if res.paths > max_paths or (deadline_s and time.time() - t0 > deadline_s * peak_slack()):
                res.bound_hits.append(f"path/time budget hit after {res.paths} paths")
                break
        res.functions.update(_seen_code)
        res.wall = time.time() - t0
        return res
    ctx = mp.get_context("fork")
    pool = ctx.Pool(workers, initializer=_install_monitor)
    try:
        pending = [pool.apply_async(_task, (key, [], opts, 1))]
        stop = False
        while pending:
            nxt = []
            progressed = False
            for h in pending:
                if h.ready():
                    progressed = True
                    out, left, fns = h.get()
                    res.functions.update(fns)
                    for p in out:
                        res.merge_path(p)
                    if not stop:
                        for pre in left:
                            nxt.append(pool.apply_async(_task, (key, pre, opts, 24)))
                else:
                    nxt.append(h)
            pending = nxt
            if res.paths > max_paths or (deadline_s and time.time() - t0 > deadline_s * peak_slack()):
                if not stop:
                    res.bound_hits.append(f"path/time budget hit after {res.paths} paths")
                stop = True
                pool.terminate()
                break
            if not progressed:
                time.sleep(0.005)
    finally:
        pool.terminate()
        pool.join()
        _HARNESS.pop(key, None)
    res.wall = time.time() - t0
    return res


# --------------------------------------------------------------------------- dual-mode value provider
class Sym:
    """Value provider + obligation sink, symbolic mode."""

    mode = "sym"

    def real(self, name, lo=None, hi=None, lo_strict=False, hi_strict=False):
        c = z3.Real(name)
        E().symbols[name] = c
        E().ranges[name] = ["R", None if lo is None or is_sym(lo) else float(lo), None if hi is None or is_sym(hi) else float(hi)]
        if lo is not None:
            E().assume(c > lift(lo) if lo_strict else c >= lift(lo))
        if hi is not None:
            E().assume(c < lift(hi) if hi_strict else c <= lift(hi))
        return SR(c)

    def pos(self, name):
        return self.real(name, lo=0, lo_strict=True)

    def int(self, name, lo=None, hi=None):
        c = z3.Int(name)
        E().symbols[name] = c
        E().ranges[name] = ["I", lo, hi]
        if lo is not None:
            E().assume(c >= lo)
        if hi is not None:
            E().assume(c <= hi)
        return SI(c)

    def bool(self, name):
        c = z3.Bool(name)
        E().symbols[name] = c
        E().ranges[name] = ["B", None, None]
        return SB(c)

    def choice(self, name, n):
        """Concrete index in range(n), forked."""
        return int(self.int(name, 0, n - 1))

    def array(self, name, shape):
        return symarr(name, shape)

    def assume(self, c):
        E().assume(c)

    def prove(self, c, label, evals=None, info=None):
        return E().prove(c, label, evals=evals, info=info)

    def fail(self, label, info=None):
        E().fail(label, info=info)

    def reach(self, label):
        E().reach(label)

    def same(self, a, b):
        return same_array(a, b)

    def eq(self, a, b, tol=0.0):
        return all_eq(a, b)


class CanarySym(Sym):
    """Vacuity/blindness canary: the obligation `target` is asserted NEGATED (every other obligation is
    skipped).  A healthy harness must then report a counterexample: the obligation is reached on a
    feasible path and is not vacuously true.  A canary that stays silent is a harness error."""

    def __init__(self, target):
        self.target = target

    def prove(self, c, label, evals=None, info=None):
        if label != self.target:
            return True
        if isinstance(c, (bool, np.bool_)):
            return E().prove(not bool(c), label, evals=evals, info=info)
        return E().prove(snot(c), label, evals=evals, info=info)

    def fail(self, label, info=None):
        return None


class Replay:
    """Value provider + obligation sink on concrete witness values (runs unpatched real code)."""

    mode = "replay"

    def __init__(self, witness):
        self.w = witness
        self.sym = witness.get("symbols", {})
        self.failed = []
        self.reached = set()

    def _get(self, name, default):
        v = self.sym.get(name, default)
        return v

    def real(self, name, lo=None, hi=None, lo_strict=False, hi_strict=False):
        v = self.sym.get(name)
        if v is None:
            v = 1.0 if lo is None else (float(lo) + 1.0 if hi is None else (float(lo) + float(hi)) / 2)
        return wfloat(v)

    def pos(self, name):
        return self.real(name, lo=0, lo_strict=True)

    def int(self, name, lo=None, hi=None):
        v = self.sym.get(name)
        if v is None:
            v = lo if lo is not None else 0
        return int(v)

    def bool(self, name):
        return bool(self.sym.get(name, False))

    def choice(self, name, n):
        return self.int(name, 0, n - 1)

    def array(self, name, shape):
        a = np.zeros(shape)
        for idx in np.ndindex(*a.shape):
            n = name + "".join(map(str, idx))
            a[idx] = wfloat(self.sym.get(n, 0.0))
        return a

    def assume(self, c):
        if not bool(c):
            raise ReplayMismatch("assumption false on witness values")

    def prove(self, c, label, evals=None, info=None):
        ok = bool(c)
        if not ok:
            self.failed.append(label)
        return ok

    def fail(self, label, info=None):
        self.failed.append(label)

    def reach(self, label):
        self.reached.add(label)

    def same(self, a, b):
        a = np.asarray(a)
        b = np.asarray(b)
        return a.shape == b.shape and bool(np.array_equal(a, b, equal_nan=True)) and (a.dtype == b.dtype or True)

    def eq(self, a, b, tol=1e-9):
        a = np.asarray(a, dtype=float)
        b = np.asarray(b, dtype=float)
        if a.shape != b.shape:
            return False
        scale = max(1.0, float(np.max(np.abs(a))) if a.size else 1.0)
        return bool(np.all(np.abs(a - b) <= tol * scale))
